"""C10 - a long-lived enforcer decides as a freshly started one would
(necessary conditions only)."""
import ast

from .. import PKG
from ..absval import AV
from ..dte import Table
from ..enforce_model import enforce_table
from ..load_model import roles, load_table, classify_event
from ..model import AnalysisError
from ..util import (U, is_const, method_call, kwarg, walk_no_nested,
                    parent_map)

POLICY = PKG + '.policy'
ENF = POLICY + '.Enforcer'
CACHE = PKG + '._cache_handler'


def check_type_agree(ctx):
    """Producer/consumer agreement on the data component."""
    prog = ctx.prog
    rc = prog.func(CACHE + '.read_cached_file')
    from ..dte import inline_helpers
    tr = Table(prog, rc, inline=inline_helpers(
        prog, modules={CACHE}, exclude={CACHE + '.delete_cached_file'}),
        max_depth=4)
    kinds = {}
    for p in tr.paths:
        if p.outcome.kind != 'return' or p.outcome.expr is None:
            continue
        e = tr.expand(p.outcome.expr)
        if not (isinstance(e, ast.Tuple) and len(e.elts) == 2):
            ctx.ob('C10.TYPE-AGREE', False, ctx.where(rc.module, rc.node),
                   rc.qual, 'return ' + U(e),
                   'read_cached_file does not return (reloaded, data)')
            continue
        d = e.elts[1]
        if isinstance(d, ast.Dict) and not d.keys:
            kinds.setdefault('empty dict', (p, d))
        elif isinstance(d, ast.Constant) and d.value in ('', None):
            kinds.setdefault('empty %s' % type(d.value).__name__, (p, d))
        else:
            kinds.setdefault('file text', (p, d))
    ctx.floor('C10.TYPE-AGREE', len(kinds), 1, 'producer result kinds')
    pf = prog.func(POLICY + '.parse_file_contents')
    tp = Table(prog, pf)
    data_p = pf.params[0]
    avs = {
        'empty dict': AV('{} (file vanished)', False, types=('dict',),
                         eq={'*': False}, length=0),
        'empty str': AV("''", False, types=('str',), eq={'': True,
                                                         '*': False},
                        length=0),
        'empty NoneType': AV('None', False, types=('NoneType',),
                             is_none=True, eq={'*': False}),
    }
    decoders = ('jsonutils.loads', 'yaml.safe_load', 'json.loads',
                'yaml.load')
    for k, (pp, d) in sorted(kinds.items()):
        if k == 'file text':
            ctx.ob('C10.TYPE-AGREE', True, '%s:%d' % (ctx.where(
                rc.module, rc.node).split(':')[0], pp.outcome.line),
                rc.qual, 'produces file text', 'decoders accept text')
            continue
        av = avs[k]
        feas = tp.feasible({data_p: av})
        hit = None
        for p, unk in feas:
            for ev in p.events:
                if ev.kind == 'call':
                    r = prog.resolve(pf.module, ev.node.func) or ''
                    if r.endswith(decoders) and ev.node.args and U(
                            ev.node.args[0]) == data_p and (
                                k == 'empty dict' or not r.endswith(
                                    'safe_load')):
                        # str decoders reject a mapping / None
                        if k == 'empty str':
                            continue
                        hit = (p, ev)
                        break
            if hit:
                break
        ctx.ob('C10.TYPE-AGREE', hit is None,
               ctx.where(pf.module, hit[1].raw if hit and hit[1].raw
                         is not None else pf.node) if hit is None else
               '%s:%d' % (ctx.where(pf.module, pf.node).split(':')[0],
                          hit[1].line), pf.qual,
               'consumer of %s' % av.label,
               'the %s handed out when the policy file has disappeared '
               'never reaches a text decoder' % k if hit is None else
               'read_cached_file returns %s when the file has disappeared '
               '(line %d) and parse_file_contents passes it to %s, which '
               'rejects it: every later enforce raises instead of treating '
               'the file as empty' % (av.label, pp.outcome.line,
                                      U(hit[1].node.func)),
               witness={'producer_line': pp.outcome.line, 'kind': k})
    # chain links: loader hands the data component to Rules.load and to the
    # recorder; Rules.load hands it to parse_file_contents
    r = roles(ctx)
    ld = r.loader
    # private helpers of the loader that hand the data on are read through
    via = {g.qual for n in walk_no_nested(ld.node)
           if isinstance(n, ast.Call)
           for g in [prog.callee_of(ld, n)]
           if g is not None and g.cls is ld.cls and g.cls is not None
           and g not in (ld, r.recorder, r.load_rules) and any(
               isinstance(c, ast.Call) and prog.callee_of(g, c) is r.recorder
               for c in walk_no_nested(g.node))}
    tl = Table(prog, ld, inline=(
        lambda call, frame: (prog.callee_of(frame, call)
                             if prog.callee_of(frame, call) is not None
                             and prog.callee_of(frame, call).qual in via
                             else None))) if via else Table(prog, ld)
    ok_chain = False
    for p in tl.paths:
        reads = [e for e in p.events if e.kind == 'call' and prog.resolve(
            ld.module, e.node.func) == CACHE + '.read_cached_file']
        loads = [e for e in p.events if e.kind == 'call' and prog.resolve(
            ld.module, e.node.func) == POLICY + '.Rules.load']
        recs = [e for e in p.events if e.kind == 'call'
                and prog.callee_of(prog.functions.get(e.frame, ld),
                                   e.node) is r.recorder]
        if reads and loads and recs:
            sym = reads[0].sym

            def is_data(x):
                return isinstance(x, ast.Subscript) and isinstance(
                    x.value, ast.Name) and x.value.id == sym and is_const(
                        x.slice, 1)
            if is_data(loads[0].node.args[0]) and is_data(
                    recs[0].node.args[0]):
                ok_chain = True
    ctx.ob('C10.TYPE-AGREE', ok_chain, ctx.where(ld.module, ld.node),
           ld.qual, 'loader data flow',
           'the data component of read_cached_file is what is parsed and '
           'recorded' if ok_chain else
           'the loader does not pass read_cached_file\'s data to both the '
           'rule parser and the file-rule recorder')


def check_load_first(ctx):
    prog = ctx.prog
    t = enforce_table(ctx, inline_gate=False)
    enf = t.enf
    bad = None
    STORES = ('self.rules', 'self.file_rules', 'self.registered_rules')

    def touches(node):
        txt = U(node)
        return any(s in txt for s in STORES)
    for p in t.paths:
        load = None
        for i, e in enumerate(p.events):
            if e.kind == 'call':
                g = prog.callee_of(prog.functions.get(e.frame, enf), e.node)
                if g is not None and g.qual == ENF + '.load_rules':
                    load = (i, e)
                    break
        if load is None:
            bad = (p, 'no call of load_rules() on this path')
            break
        i, e = load
        a = kwarg(e.node, 'force_reload', 0)
        if a is not None and not is_const(a, False):
            bad = (p, 'load_rules is called with force_reload=%s' % U(a))
            break
        early = [x for x in p.events[:i] if x.kind in ('store', 'aug', 'del')
                 or touches(x.node)]
        early_c = [c for c in p.conds[:e.nconds] if touches(c.expr)]
        if early or early_c:
            bad = (p, 'the rule stores are used before load_rules(): %s' % (
                (early[0].text() if early else early_c[0].text())))
            break
        if e.nconds and any(c.kind == 'test' for c in p.conds[:e.nconds]) \
                and not all('LOG' in U(c.expr) or 'isEnabledFor' in U(c.expr)
                            for c in p.conds[:e.nconds]):
            bad = (p, 'load_rules() is called only under the condition %s'
                   % ' and '.join(c.text() for c in p.conds[:e.nconds]))
            break
    ctx.count(len(t.paths))
    ctx.ob('C10.LOAD-FIRST', bad is None, ctx.where(enf.module, enf.node),
           enf.qual, 'load before use on %d paths' % len(t.paths),
           'every enforcement call refreshes the rules before reading them'
           if bad is None else 'enforce does not unconditionally call '
           'load_rules() before using the rule stores: %s' % bad[1])


def check_stale(ctx):
    prog = ctx.prog
    rc = prog.func(CACHE + '.read_cached_file')
    from ..dte import inline_helpers
    t = Table(prog, rc, inline=inline_helpers(
        prog, modules={CACHE}, exclude={CACHE + '.delete_cached_file'}),
        max_depth=4)
    W = ctx.where(rc.module, rc.node)
    cache_p, file_p = rc.params[0], rc.params[1]
    force_p = rc.params[2] if len(rc.params) > 2 else None

    def is_entry(x):
        x = t.expand(x)
        return isinstance(x, ast.Call) and method_call(x, 'setdefault') and \
            U(method_call(x)[0]) == cache_p or (
                isinstance(x, ast.Subscript) and U(x.value) == cache_p)

    def is_mtime(x):
        """os.path.getmtime(f), os.stat(f).st_mtime, pathlib.Path(f).stat()
        .st_mtime"""
        x = t.expand(x)
        if isinstance(x, ast.Call) and prog.resolve(
                rc.module, x.func) == 'ext:os.path.getmtime':
            return True
        if isinstance(x, ast.Attribute) and x.attr in (
                'st_mtime', 'st_mtime_ns') and isinstance(x.value, ast.Call):
            r = prog.resolve(rc.module, x.value.func)
            return r in ('ext:os.stat', 'ext:os.lstat') or bool(
                method_call(x.value, 'stat'))
        return False

    def classify(p):
        if p.outcome.kind == 'raise':
            return 'raise'
        raw = p.outcome.expr
        e = t.expand(raw) if raw is not None else None
        if isinstance(e, ast.Tuple) and len(e.elts) == 2 and is_const(
                e.elts[0]):
            return 'reloaded' if e.elts[0].value else 'cached'
        if isinstance(raw, ast.Tuple) and len(raw.elts) == 2:
            # a computed flag: what the conditions of the path make of it
            tr = t.truth(p, raw.elts[0])
            if tr is not None:
                return 'reloaded' if tr else 'cached'
        return 'other'

    cases = {'empty cache entry': 'reloaded',
             'cached mtime older than the file': 'reloaded',
             'cached mtime equal to the file': 'cached'}
    for case, want in cases.items():
        def oracle(expr, case=case):
            x = t.expand(expr)
            if is_entry(expr) or (isinstance(expr, ast.Name) and is_entry(
                    expr)):
                return case != 'empty cache entry'
            if isinstance(x, ast.Compare) and len(x.ops) == 1 and \
                    isinstance(x.ops[0], (ast.Gt, ast.GtE, ast.Lt,
                                          ast.LtE, ast.NotEq, ast.Eq)):
                l, r = x.left, x.comparators[0]
                op = type(x.ops[0])
                flip = False
                if is_mtime(r) and not is_mtime(l):
                    l, r = r, l
                    flip = True
                if is_mtime(l) and isinstance(r, ast.Call) and method_call(
                        r, 'get') and r.args and is_const(r.args[0],
                                                          'mtime'):
                    # file mtime vs cached mtime
                    rel = {'empty cache entry': 'gt',
                           'cached mtime older than the file': 'gt',
                           'cached mtime equal to the file': 'eq'}[case]
                    if flip:
                        op = {ast.Gt: ast.Lt, ast.GtE: ast.LtE,
                              ast.Lt: ast.Gt, ast.LtE: ast.GtE}.get(op, op)
                    return {ast.Gt: rel == 'gt', ast.GtE: True,
                            ast.Lt: False, ast.LtE: rel == 'eq',
                            ast.NotEq: rel == 'gt',
                            ast.Eq: rel == 'eq'}[op]
            return None
        binding = {}
        if force_p:
            binding[force_p] = AV('force off', False, types=('bool',),
                                  eq={True: False, False: True})
        feas = [(p, u) for p, u in t.feasible(binding, oracle)
                if not any(c.kind == 'exc' for c in p.conds)]
        outs = {classify(p) for p, u in feas}
        ok = outs == {want}
        ctx.ob('C10.STALE', ok, W, rc.qual, case,
               'the file is %s' % ('re-read' if want == 'reloaded'
                                   else 'served from the cache') if ok else
               'with %s read_cached_file can answer %s instead of %s' % (
                   case, sorted(outs), want))
    # the stored mtime is the compared one
    okm = False
    for p in t.paths:
        for e in p.events:
            if e.kind == 'store' and isinstance(e.node, ast.Subscript) and \
                    is_const(e.node.slice, 'mtime') and is_entry(
                        e.node.value) and is_mtime(e.value):
                okm = True
    ctx.ob('C10.STALE', okm, W, rc.qual, 'stored mtime',
           'the modification time that was compared is the one remembered'
           if okm else 'the cache does not remember the modification time '
           'it compared')
    # force_reload drops the entry before the lookup
    if force_p:
        okf = False
        for p in t.paths:
            if not any(c.kind == 'test' and c.pol and U(c.expr) == force_p
                       for c in p.conds):
                continue
            idx_del = idx_get = None
            for i, e in enumerate(p.events):
                if e.kind == 'call':
                    g = prog.callee_of(rc, e.node)
                    if g is not None and g.qual == \
                            CACHE + '.delete_cached_file' and idx_del is None:
                        idx_del = i
                    if method_call(e.node, 'setdefault') and idx_get is None:
                        idx_get = i
                if e.kind == 'del' and idx_del is None:
                    idx_del = i
            if idx_del is not None and (idx_get is None
                                        or idx_del < idx_get):
                okf = True
        ctx.ob('C10.STALE', okf, W, rc.qual, 'force_reload',
               'a forced reload drops the cache entry before it is '
               'consulted' if okf else
               'force_reload does not drop the cached entry first')


def check_dir_mtime(ctx):
    """The directory freshness test: the newest modification time over the
    directory itself and its entries is compared strictly with the
    remembered one, and then remembered."""
    from ..dte import inline_helpers
    prog = ctx.prog
    r = roles(ctx)
    f = r.dir_updated
    W = ctx.where(f.module, f.node)
    F = W.split(':')[0]
    path_p = f.params[-1]
    t = Table(prog, f, inline=inline_helpers(
        prog, modules={POLICY}, exclude={r.load_rules.qual, r.loader.qual}),
        max_depth=4, split_returns=True)
    en = t.en

    def is_getmtime(x):
        if x is None:
            return False
        try:
            x = en.expand(x)         # a local alias of the function
        except Exception:
            pass
        return (prog.resolve(f.module, x) or '').endswith(
            'os.path.getmtime')

    def is_cached(x):
        txt = U(x)
        return "get('mtime'" in txt or "['mtime']" in txt

    def candidates(p, e, depth=8):
        """{'self', 'entries', '?..'} descriptors of the elements of e"""
        e0 = e
        if depth <= 0:
            return {'?'}
        if isinstance(e, ast.Name) and (e.id.startswith('SYM_m') or any(
                ev.kind == 'call' and method_call(ev.node) and U(
                    method_call(ev.node)[0]) == e.id and method_call(
                        ev.node)[1] in ('append', 'extend', 'insert')
                for ev in p.events)):
            out = candidates(p, en.defs.get(e.id), depth - 1) if isinstance(
                en.defs.get(e.id), ast.AST) else (
                    candidates(p, p.env.get(e.id), depth - 1)
                    if isinstance(getattr(p, 'env', {}).get(e.id), ast.AST)
                    and not (isinstance(p.env.get(e.id), ast.Name)
                             and p.env.get(e.id).id == e.id) else {'?'})
            for ev in p.events:
                mc = method_call(ev.node) if ev.kind == 'call' else None
                if mc and U(mc[0]) == e.id and ev.node.args:
                    if mc[1] == 'extend':
                        out |= candidates(p, ev.node.args[0], depth - 1)
                    elif mc[1] == 'append':
                        for k in elem_kind(ev.node.args[0], None):
                            if k.startswith('entries:'):
                                sym = k.split(':', 1)[1]
                                filtered = any(
                                    c.kind == 'test' and sym in U(c.expr)
                                    for c in p.conds)
                                out.add('?filtered listing' if filtered
                                        else 'entries')
                            else:
                                out.add(k)
                    elif mc[1] == 'insert' and len(ev.node.args) == 2:
                        out |= elem_kind(ev.node.args[1], None)
            return out
        if isinstance(e, ast.Name) and isinstance(en.defs.get(e.id),
                                                  ast.AST):
            return candidates(p, en.defs[e.id], depth - 1)
        if isinstance(e, ast.BinOp) and isinstance(e.op, ast.Add):
            return candidates(p, e.left, depth - 1) | candidates(
                p, e.right, depth - 1)
        if isinstance(e, (ast.List, ast.Tuple, ast.Set)):
            out = set()
            for x in e.elts:
                if isinstance(x, ast.Starred):
                    out |= candidates(p, x.value, depth - 1)
                else:
                    out |= elem_kind(x, None)
            return out
        if isinstance(e, (ast.ListComp, ast.GeneratorExp, ast.SetComp)) \
                and len(e.generators) == 1:
            return elem_kind(e.elt, e.generators[0])
        if isinstance(e, ast.Call) and U(e.func) in (
                'list', 'tuple', 'set', 'sorted', 'iter') and e.args:
            return candidates(p, e.args[0], depth - 1)
        if isinstance(e, ast.Call) and U(e.func) in (
                'itertools.chain', 'chain'):
            out = set()
            for x in e.args:
                out |= candidates(p, x, depth - 1)
            return out
        return {'?' + U(e0)[:40]}

    def elem_kind(x, gen):
        x = en.expand(x)
        if isinstance(x, ast.Name) and x.id == path_p:
            return {'self'}
        if isinstance(x, ast.Call) and (prog.resolve(f.module, x.func) or ''
                                        ).endswith('os.path.join') and len(
                x.args) == 2 and U(x.args[0]) == path_p and gen is not None \
                and U(x.args[1]) == U(gen.target) and not gen.ifs:
            it = en.expand(gen.iter)
            if isinstance(it, ast.Call) and (prog.resolve(
                    f.module, it.func) or '').endswith('os.listdir') and \
                    it.args and U(it.args[0]) == path_p:
                return {'entries'}
        if gen is None and isinstance(x, ast.Call) and (
                prog.resolve(f.module, x.func) or '').endswith(
                    'os.path.join') and len(x.args) == 2 and U(
                        x.args[0]) == path_p and isinstance(
                            x.args[1], ast.Name):
            # appended in a loop over the directory listing (one element
            # stands for each: the loop body has no filter when the append
            # is not under a test of the element, checked by the caller)
            d = en.defs.get(x.args[1].id)
            if isinstance(d, tuple) and d and d[0] == 'elem':
                it = en.expand(d[1])
                if isinstance(it, ast.Call) and it.args and U(
                        it.args[0]) == path_p and (prog.resolve(
                            f.module, it.func) or '').endswith(
                                ('os.listdir',)):
                    return {'entries:' + x.args[1].id}
        if isinstance(x, ast.Attribute) and x.attr == 'path' and \
                gen is not None and U(x.value) == U(gen.target) and \
                not gen.ifs:
            it = en.expand(gen.iter)
            if isinstance(it, ast.Call) and (prog.resolve(
                    f.module, it.func) or '').endswith('os.scandir'):
                return {'entries'}
        return {'?' + U(x)[:40]}

    def newest_over(p, m):
        """candidate descriptors when m is the newest getmtime over a
        collection, else None"""
        from ..pathutil import deref
        m = deref(en, m)
        # getmtime(max(F, key=getmtime))
        if isinstance(m, ast.Call) and is_getmtime(m.func) and len(
                m.args) == 1:
            inner = deref(en, m.args[0])
            if isinstance(inner, ast.Call) and U(inner.func) == 'max' and \
                    len(inner.args) == 1 and is_getmtime(kwarg(inner, 'key')):
                return candidates(p, inner.args[0])
            return None
        # max(getmtime(c) for c in F) / max(map(getmtime, F))
        if isinstance(m, ast.Call) and U(m.func) == 'max' and len(
                m.args) == 1 and not m.keywords:
            a = m.args[0]
            if isinstance(a, (ast.GeneratorExp, ast.ListComp)) and len(
                    a.generators) == 1 and not a.generators[0].ifs and \
                    isinstance(a.elt, ast.Call) and is_getmtime(
                        a.elt.func) and len(a.elt.args) == 1 and U(
                            a.elt.args[0]) == U(a.generators[0].target):
                return candidates(p, a.generators[0].iter)
            if isinstance(a, ast.Call) and U(a.func) == 'map' and len(
                    a.args) == 2 and is_getmtime(a.args[0]):
                return candidates(p, a.args[1])
        # max(e.stat().st_mtime for e in os.scandir(path)[, default=...]):
        # the entries, and only the entries
        if isinstance(m, ast.Call) and U(m.func) == 'max' and len(
                m.args) == 1 and all(k.arg == 'default'
                                     for k in m.keywords):
            a = m.args[0]
            if isinstance(a, (ast.GeneratorExp, ast.ListComp)) and len(
                    a.generators) == 1 and U(
                        a.elt) == '%s.stat().st_mtime' % U(
                            a.generators[0].target):
                it = en.expand(a.generators[0].iter)
                while isinstance(it, ast.Call) and method_call(
                        it, '__enter__'):
                    it = method_call(it)[0]
                if isinstance(it, ast.Call) and (prog.resolve(
                        f.module, it.func) or '').endswith(
                            'os.scandir') and it.args and U(
                                it.args[0]) == path_p:
                    return {'?filtered listing'} if a.generators[0].ifs \
                        else {'entries'}
        return None

    ok_cmp = ok_upd = False
    cand = None
    unread = []
    n_true = 0
    why_cmp = 'no path reports an update'
    for p in t.paths:
        if not (p.outcome.kind == 'return' and is_const(p.outcome.expr,
                                                        True)):
            continue
        n_true += 1
        m = None
        for c in p.conds:
            if c.kind != 'test':
                continue
            x = c.expr
            if not (isinstance(x, ast.Compare) and len(x.ops) == 1):
                continue
            l, rr, op = x.left, x.comparators[0], type(x.ops[0]).__name__
            if is_cached(en.expand(rr)) and not is_cached(en.expand(l)):
                side = 'left'
            elif is_cached(en.expand(l)) and not is_cached(en.expand(rr)):
                side = 'right'
                l, rr = rr, l
                op = {'Gt': 'Lt', 'Lt': 'Gt', 'GtE': 'LtE',
                      'LtE': 'GtE'}.get(op, op)
            else:
                continue
            if not c.pol:
                op = {'Gt': 'LtE', 'LtE': 'Gt', 'Lt': 'GtE',
                      'GtE': 'Lt'}.get(op, 'not' + op)
            if op == 'Gt':
                m = l
                ok_cmp = True
            else:
                why_cmp = 'an update is reported when the new time is %s ' \
                    'the remembered one' % op
        for e in p.events:
            if e.kind == 'store' and isinstance(e.node, ast.Subscript) and \
                    is_const(e.node.slice, 'mtime') and m is not None and \
                    U(en.expand(e.value)) == U(en.expand(m)):
                ok_upd = True
        if m is not None and not is_const(en.expand(m)):
            got = newest_over(p, m)
            if got is not None and 'entries' not in got and any(
                    c.kind == 'loop' and not c.pol and isinstance(
                        en.expand(c.expr), ast.Call) and (prog.resolve(
                            f.module, en.expand(c.expr).func) or ''
                        ).endswith('os.listdir') for c in p.conds):
                # the listing loop did not run: there are no entries
                got = got | {'entries'}
            mx = en.expand(m)
            if got is None and not (isinstance(mx, ast.UnaryOp)
                                    and is_const(mx.operand)):
                unread.append((p, m))
            if got is not None:
                import os as _os
                if _os.environ.get('PVERIF_DBG'): print('DBG', sorted(got), U(en.expand(m))[:100], p.cond_text()[-200:])
                cand = got if cand is None else (cand & got)
    ctx.count(len(t.paths))
    if unread:
        raise AnalysisError(
            'the newest modification time in %s is computed in a way the '
            'analysis does not read (`%s`, not getmtime over a collection of '
            'paths): whether the directory itself and every entry take part '
            'is not decided' % (f.qual, U(en.expand(unread[0][1]))[:80]))
    ok_self = cand is not None and 'self' in cand
    ok_entries = cand is not None and 'entries' in cand
    other = sorted(x for x in (cand or ()) if x.startswith("?"))
    ctx.extra["dir_mtime_candidates"] = sorted(cand or ())
    ctx.ob('C10.DIR-MTIME', ok_self, W, f.qual, 'candidates include the '
           'directory', 'the directory\'s own mtime is considered (deleted '
           'files change it)' if ok_self else
           'the directory\'s own modification time is not considered: a '
           'deleted override file goes unnoticed')
    ctx.ob('C10.DIR-MTIME', ok_entries and not other, W, f.qual,
           'candidates include the entries',
           'the newest mtime over all entries is used'
           if ok_entries and not other else
           'the newest modification time over the directory entries is not '
           'what is compared%s' % (' (unrecognised candidates %s)' % other
                                   if other else ''))
    ctx.ob('C10.DIR-MTIME', ok_cmp and ok_upd, W, f.qual,
           'newer-than-cached test',
           'reports an update exactly when the newest mtime exceeds the '
           'remembered one, and remembers it' if ok_cmp and ok_upd else
           'the directory freshness test does not compare strictly against '
           'and then update the remembered mtime (%s)' % (
               why_cmp if not ok_cmp else 'the compared time is not the '
               'one remembered'))


def _load_atoms(t, p):
    """(force, changed, updated, existing, overwrite) polarities on a path
    (None = not decided on the path)."""
    force = changed = updated = existing = overwrite = None
    # the list(s) the located directories are collected in: displays that
    # receive the result of the path lookup somewhere (told apart from any
    # other local list by where they are written)
    acc_lines = t.__dict__.get('_dir_acc_lines')
    if acc_lines is None:
        acc_lines = set()
        gp = t.roles.get_path
        for q in t.paths:
            for e in q.events:
                if e.kind == 'call' and method_call(e.node, 'append') and \
                        e.node.args:
                    recv = method_call(e.node)[0]
                    a0 = t.expand(e.node.args[0])
                    if isinstance(recv, ast.Name) and isinstance(
                            t.en.defs.get(recv.id), ast.List) and \
                            isinstance(a0, ast.Call) and t.prog.callee_of(
                                t.prog.functions.get(e.frame,
                                                     t.roles.load_body),
                                a0) is gp:
                        acc_lines.add(getattr(t.en.defs[recv.id], 'lineno',
                                              None))
        t.__dict__['_dir_acc_lines'] = acc_lines

    def is_acc(d):
        return not acc_lines or getattr(d, 'lineno', None) in acc_lines
    for c in p.conds:
        if c.kind != 'test':
            continue
        txt = U(c.expr)
        if txt == 'force_reload':
            force = c.pol
        elif txt == 'self.overwrite':
            overwrite = c.pol
        elif isinstance(c.expr, ast.Call) or (
                isinstance(c.expr, ast.Name) and c.expr.id in t.en.defs):
            d = c.expr if isinstance(c.expr, ast.Call) else \
                t.en.defs[c.expr.id]
            if isinstance(d, ast.Call):
                g = t.prog.callee_of(t.roles.load_body, d)
                if g is t.roles.loader:
                    changed = c.pol if changed is None else (changed
                                                             or c.pol)
                elif g is t.roles.dir_updated:
                    updated = c.pol if updated is None else (updated
                                                             or c.pol)
            elif isinstance(d, ast.List) and is_acc(d):
                existing = c.pol
    if existing is None:
        for e in p.events:
            if e.kind == 'call' and method_call(e.node, 'append'):
                recv = method_call(e.node)[0]
                if isinstance(recv, ast.Name) and isinstance(
                        t.en.defs.get(recv.id), ast.List) and is_acc(
                            t.en.defs[recv.id]):
                    existing = True
    return force, changed, updated, existing, overwrite


def _fresh_rules(prog, lr, v, depth=2):
    """`Rules()` / `Rules(default_rule=...)` without initial entries, also
    through a helper that only builds the store from its arguments."""
    if not isinstance(v, ast.Call):
        return False
    if prog.resolve(lr.module, v.func) == POLICY + '.Rules':
        return not v.args or is_const(v.args[0], None)
    g = prog.callee_of(lr, v)
    if g is None or depth <= 0:
        return False
    body = [s for s in g.node.body if not (isinstance(s, ast.Expr) and
                                           isinstance(s.value, ast.Constant))]
    if len(body) != 1 or not isinstance(body[0], ast.Return) or \
            not isinstance(body[0].value, ast.Call):
        return False
    inner = body[0].value
    if prog.resolve(g.module, inner.func) != POLICY + '.Rules':
        return False
    if not inner.args:
        return True
    a = inner.args[0]
    if is_const(a, None):
        return True
    if not isinstance(a, ast.Name) or a.id not in g.params:
        return False
    # the parameter is left at its None default by this call
    ga = g.node.args
    names = [x.arg for x in ga.posonlyargs + ga.args]
    off = 1 if names and names[0] in ('self', 'cls') and isinstance(
        v.func, ast.Attribute) else 0
    i = names.index(a.id) - off
    given = kwarg(v, a.id, i)
    if given is not None:
        return is_const(given, None)
    nd = len(ga.defaults)
    j = names.index(a.id) - (len(names) - nd)
    return 0 <= j < nd and is_const(ga.defaults[j], None)


def check_dir_forced(ctx, rule='C10.REAPPLY'):
    """When the directories are re-applied (the store was reset just before),
    every file in them is read and applied, whatever the file cache says: the
    force flag that reaches the per-file loader is the constant True."""
    prog = ctx.prog
    r = roles(ctx)
    ld = r.loader
    force_param = None
    for n in walk_no_nested(ld.node):
        if isinstance(n, ast.Call) and prog.resolve(
                ld.module, n.func) == CACHE + '.read_cached_file':
            a = kwarg(n, 'force_reload', 1)
            if isinstance(a, ast.Name) and a.id in ld.params:
                force_param = a.id
    if force_param is None or r.walker is None:
        ctx.assume('%s: the force parameter of the per-file loader was not '
                   'identified; the directory force flag is not decided'
                   % rule)
        return

    idx = ld.params.index(force_param) - 1     # without self
    seen = {}
    w = r.walker
    wa = w.node.args
    named = [a.arg for a in wa.posonlyargs + wa.args]
    # fast path: the walker forwards its *args to a function parameter
    fwd = None
    for n in walk_no_nested(w.node):
        if isinstance(n, ast.Call) and isinstance(n.func, ast.Name) and \
                n.func.id in named and wa.vararg is not None and n.args \
                and isinstance(n.args[-1], ast.Starred) and U(
                    n.args[-1].value) == wa.vararg.arg and not any(
                        isinstance(a, ast.Starred) for a in n.args[:-1]):
            fwd = (named.index(n.func.id), len(n.args) - 1)
    t = load_table(ctx)
    if fwd is not None:
        fpos, k = fwd
        off = 1 if named and named[0] == 'self' else 0
        for p in t.paths:
            for e in p.events:
                if classify_event(t, e) != 'DIR':
                    continue
                x = e.node
                pos = list(x.args)
                if any(isinstance(a, ast.Starred) for a in pos) or \
                        len(pos) <= fpos - off:
                    seen[(e.line, 'unrecognised call shape')] = False
                    continue
                fn = t.expand(pos[fpos - off])
                fr = prog.functions.get(e.frame, r.load_body)
                if not (isinstance(fn, ast.Attribute) and prog.find_method(
                        ENF, fn.attr) is ld):
                    continue
                extra = pos[len(named) - off:]
                j = idx - k
                v = t.expand(extra[j]) if 0 <= j < len(extra) else None
                key = (e.line, U(v) if v is not None else None)
                if key not in seen:
                    seen[key] = is_const(v, True)
    else:
        def inl(call, frame):
            g = prog.callee_of(frame, call)
            return g if g is r.walker else None
        t = Table(prog, r.load_body, inline=inl, max_paths=200000)
        for p in t.paths:
            for e in p.events:
                if e.kind not in ('call', 'maycall') or not isinstance(
                        e.node, ast.Call) or e.frame != r.walker.qual:
                    continue
                x = t.expand(e.node)
                g = prog.callee_of(r.walker, e.node) or prog.callee_of(
                    r.load_body, x)
                if g is not ld:
                    continue
                a = kwarg(x, force_param, idx)
                v = t.expand(a) if a is not None else None
                key = (e.line, U(v) if v is not None else None)
                if key not in seen:
                    seen[key] = is_const(v, True)
    bad = [k for k, ok in seen.items() if not ok]
    F = ctx.where(r.walker.module, r.walker.node)
    ctx.ob(rule, not bad, '%s:%d' % (F.split(':')[0], bad[0][0]) if bad
           else F, r.walker.qual,
           'force flag reaching the per-file loader from the directory walk '
           '(%d call shapes)' % len(seen),
           'directory files are always re-read and re-applied' if not bad
           else 'the directory walk passes %s=%s to the per-file loader: '
           'the store was reset just before, so a file the cache considers '
           'unchanged is skipped and its rules silently drop out of the '
           'reloaded policy' % (force_param, bad[0][1]))
    ctx.floor(rule, len(seen), 1, 'per-file loader calls from the walk')


def check_reapply_and_reset(ctx):
    prog = ctx.prog
    t = load_table(ctx)
    r = t.roles
    lr = r.load_rules
    F = ctx.where(lr.module, lr.node).split(':')[0]
    ctx.count(len(t.paths))
    miss = spurious = noreset = None
    n_dir = 0
    for p in t.paths:
        if any(c.kind == 'exc' and 'ConfigFilesNotFound' not in str(
                c.expr.value) for c in p.conds):
            continue
        kinds = [(classify_event(t, e), e) for e in p.events]
        dirs = [i for i, (k, e) in enumerate(kinds) if k == 'DIR']
        force, changed, updated, existing, overwrite = _load_atoms(t, p)
        kk = [k for k, _e in kinds]
        # a change report that is never tested may well have been True
        if changed is None and 'MAIN' in kk:
            changed = True
        if updated is None and 'UPDATED' in kk:
            updated = True
        trigger = bool(force) or bool(changed) or bool(updated)
        use_conf = any(c.kind == 'test' and c.pol and U(c.expr) in (
            'self.use_conf',) for c in p.conds) or bool(force)
        if dirs:
            n_dir += 1
            if not trigger and spurious is None:
                spurious = p
            # RESET: before the first directory application
            if overwrite is not False:
                before = kinds[:dirs[0]]
                ok = False
                got_rules = got_file = False
                for k, e in before:
                    if k == 'MAIN':
                        fr = kwarg(e.node, 'force_reload', 1)
                        if fr is not None and is_const(fr, True):
                            ok = True
                        if any(c.kind == 'test' and c.pol and isinstance(
                                c.expr, ast.Name) and c.expr.id == e.sym
                                for c in p.conds):
                            ok = True
                        if fr is not None and U(fr) == 'force_reload' and \
                                force:
                            ok = True
                    if k == 'RESET-RULES':
                        if _fresh_rules(prog, lr, t.expand(e.value)):
                            got_rules = True
                    if k == 'RESET-FILE':
                        v = t.expand(e.value)
                        if isinstance(v, ast.Dict) and not v.keys:
                            got_file = True
                if got_rules and got_file:
                    ok = True
                if not ok and noreset is None:
                    noreset = (p, kinds[dirs[0]][1], got_rules, got_file)
        elif trigger and existing and use_conf and miss is None and \
                p.outcome.kind != 'raise':
            miss = p
    ctx.floor('C10.REAPPLY', n_dir, 1, 'paths with a directory application')
    ctx.ob('C10.REAPPLY', miss is None, ctx.where(lr.module, lr.node),
           lr.qual, 'directory re-application trigger',
           'a forced load, a changed main file or an updated directory '
           'each re-apply the policy directories' if miss is None else
           'policy directories are not re-applied although the load was '
           'forced / the main file changed / a directory was updated '
           '(path: %s)' % miss.cond_text()[-400:])
    ctx.ob('C10.RESET', noreset is None,
           '%s:%d' % (F, noreset[1].line) if noreset else
           ctx.where(lr.module, lr.node), lr.qual,
           'store reset before directory re-application (%d paths)' % n_dir,
           'in overwrite mode the rule store and the file-rule record are '
           'rebuilt (main file re-read or both stores reset) before '
           'directories are applied' if noreset is None else
           'directories are re-applied on top of a stale store: no main-'
           'file reload and no reset of %s precedes (path: %s): a removed '
           'override survives' % (
               'self.rules and self.file_rules' if not (noreset[2]
                                                        or noreset[3])
               else ('self.file_rules' if noreset[2] else 'self.rules'),
               noreset[0].cond_text()[-400:]),
           witness=None if noreset is None else {
               'path': noreset[0].cond_text()})
    # DEFAULTS: the merge loop runs on every use_conf path
    bad = None
    for p in t.paths:
        if p.outcome.kind == 'raise':
            continue
        use_conf = any(c.kind == 'test' and c.pol and U(c.expr) ==
                       'self.use_conf' for c in p.conds) or any(
                           c.kind == 'test' and c.pol and U(c.expr) ==
                           'force_reload' for c in p.conds)
        if not use_conf:
            continue
        has_loop = any(e.kind == 'iter' and U(e.node) in (
            'self.registered_rules.values()',
            'self.registered_rules.items()', 'self.registered_rules',
            'list(self.registered_rules.values())',
            'list(self.registered_rules.items())') for e in p.events)
        if not has_loop:
            bad = p
            break
    # ... and inside the loop every default whose name the store lacks is
    # put into it, whatever else is true of that default
    unmerged = None
    for p in t.paths:
        if p.outcome.kind == 'raise' or unmerged is not None:
            continue
        entered = any(c.kind == 'loop' and c.pol and 'registered_rules' in U(
            t.expand(c.expr)) for c in p.conds)
        if not entered:
            continue
        asked = [c for c in p.conds if c.kind == 'test' and isinstance(
            c.expr, ast.Compare) and len(c.expr.ops) == 1 and isinstance(
                c.expr.ops[0], ast.In) and U(t.expand(
                    c.expr.comparators[0])) in ('self.rules',
                                                'self.rules.keys()')
            and U(t.expand(c.expr.left)).endswith('.name')]
        present = any(c.pol for c in asked)
        stored = any(e.kind == 'store' and isinstance(
            e.node, ast.Subscript) and (U(e.node.value) == 'self.rules' or U(
                t.expand(e.node.slice)).endswith('.name'))
            for e in p.events) or any(
                e.kind == 'call' and method_call(e.node) and U(
                    method_call(e.node)[0]) == 'self.rules' and method_call(
                        e.node)[1] in ('update', 'setdefault')
                for e in p.events)
        if not present and not stored:
            unmerged = p
    ctx.ob('C10.DEFAULTS', unmerged is None, ctx.where(lr.module, lr.node),
           lr.qual, 'every absent default is merged',
           'a registered default whose name the store lacks is put into it'
           if unmerged is None else
           'a registered default can be left out of the store although its '
           'name is not defined there (path: %s): the name is then decided '
           'by the default rule' % unmerged.cond_text()[-300:])
    ctx.ob('C10.DEFAULTS', bad is None, ctx.where(lr.module, lr.node),
           lr.qual, 'default merge reachability',
           'registered defaults are merged on every load, whatever changed'
           if bad is None else
           'registered defaults are not merged on a path where nothing '
           'changed: a default lost to a reset stays lost (path: %s)'
           % bad.cond_text()[-300:])


def check_pair(ctx):
    prog = ctx.prog
    r = roles(ctx)
    ld, rec = r.loader, r.recorder
    sr = prog.func(ENF + '.set_rules')
    ov_set = ov_rec = None
    via = set()          # private helpers of the loader that apply the file

    def scan(f, binding, depth):
        nonlocal ov_set, ov_rec
        for n in walk_no_nested(f.node):
            if not isinstance(n, ast.Call):
                continue
            g = prog.callee_of(f, n)
            if g is sr or g is rec:
                ov = kwarg(n, 'overwrite', 1)
                if isinstance(ov, ast.Name) and ov.id in binding:
                    ov = binding[ov.id]
                if g is sr:
                    ov_set = ov
                else:
                    ov_rec = ov
            elif g is not None and depth and g.cls is ld.cls and \
                    g.cls is not None and g not in (ld, r.load_rules) and \
                    any(isinstance(c, ast.Call) and prog.callee_of(g, c) in (
                        sr, rec) for c in walk_no_nested(g.node)):
                gp = g.params[1:] if not g.is_static else g.params
                b2 = {}
                for i, pn in enumerate(gp):
                    a = n.args[i] if i < len(n.args) else None
                    for k in n.keywords:
                        if k.arg == pn:
                            a = k.value
                    if isinstance(a, ast.Name) and a.id in binding:
                        a = binding[a.id]
                    if a is not None:
                        b2[pn] = a
                via.add(g.qual)
                scan(g, b2, depth - 1)
    scan(ld, {}, 2)
    ok = ov_set is not None and ov_rec is not None and U(ov_set) == U(
        ov_rec) == 'overwrite'
    ctx.ob('C10.PAIR', ok, ctx.where(ld.module, ld.node), ld.qual,
           'set_rules(overwrite=%s) / recorder(overwrite=%s)' % (
               U(ov_set) if ov_set is not None else None,
               U(ov_rec) if ov_rec is not None else None),
           'the rule store and the file-rule record are replaced or '
           'updated together' if ok else
           'the loader does not give the same overwrite mode to the rule '
           'store and to the file-rule record')
    t = Table(prog, rec)
    ok = True
    seen = False
    for p in t.paths:
        if p.outcome.kind == 'raise':
            continue
        pols = [c.pol for c in p.conds
                if c.kind == 'test' and U(c.expr) == 'overwrite']
        if pols:
            seen = True
        if pols and not all(pols):
            continue
        # this path is taken in overwrite mode
        reset = any(e.kind == 'store' and U(e.node) ==
                    'self.file_rules' and 'self.file_rules' not in
                    U(t.expand(e.value)) for e in p.events)
        if not reset:
            ok = False
    ctx.ob('C10.PAIR', ok and seen, ctx.where(rec.module, rec.node),
           rec.qual, 'recorder overwrite',
           'overwrite mode starts the file-rule record afresh'
           if ok and seen else
           'the file-rule record is not re-initialised in overwrite mode: '
           'stale overrides keep being treated as operator overrides')
    # the loader applies the file when reloaded (or the store is empty)
    tl = Table(prog, ld, inline=(
        lambda call, frame: (prog.callee_of(frame, call)
                             if prog.callee_of(frame, call) is not None
                             and prog.callee_of(frame, call).qual in via
                             else None))) if via else Table(prog, ld)
    bad = None
    for p in tl.paths:
        reloaded = None
        for c in p.conds:
            x = c.expr
            if c.kind == 'test' and isinstance(x, ast.Subscript) and \
                    is_const(x.slice, 0) and isinstance(x.value, ast.Name) \
                    and x.value.id.startswith('SYM_'):
                reloaded = c.pol
        applied = any(e.kind == 'call' and prog.callee_of(ld, e.node) is sr
                      for e in p.events)
        if reloaded and not applied:
            bad = p
        # ... and it leaves a file unapplied only because the cache says it
        # has not changed (an emptied or vanished main file still replaces
        # the layer it used to provide)
        if not applied and reloaded is not False and \
                p.outcome.kind == 'return':
            bad = p
        if p.outcome.kind == 'return':
            rv = tl.expand(p.outcome.expr)
            # the reported value as the conditions of this path decide it
            tv = True if is_const(rv, True) else (
                bool(rv.value) if is_const(rv) else
                tl.truth(p, p.outcome.expr))
            if applied and tv is not True:
                bad = p
            if not applied and tv is True:
                bad = p
    ctx.ob('C10.PAIR', bad is None, ctx.where(ld.module, ld.node), ld.qual,
           'loader result',
           'a re-read file is applied and reported as a change' if bad is
           None else 'the loader does not apply a re-read file and report '
           'the change truthfully (path: %s)' % bad.cond_text())


def check(ctx):
    ctx.use(POLICY, CACHE)
    ctx.explain('C10 (necessary conditions): type agreement between what '
                'the file cache hands out and what the decoders accept; '
                'load-before-read in enforce; partial evaluation of the '
                'cache guard on abstract cache entries; the directory '
                'freshness test; re-application triggers and the '
                'reset-before-reapply discipline on every path of '
                'load_rules.')
    ctx.assume('history-level equivalence with a fresh enforcer (mtime '
               'granularity, arbitrary edit orders) is not decided')
    check_type_agree(ctx)
    check_load_first(ctx)
    check_stale(ctx)
    check_dir_mtime(ctx)
    check_reapply_and_reset(ctx)
    check_dir_forced(ctx)
    check_pair(ctx)
    from ..load_model import check_merge_memo
    check_merge_memo(ctx, 'C10.DEFAULTS(MEMO)')
    # no state that gates a store-writing step is switched off by a load
    from . import c20 as _c20
    ctx.borrow('C10.REAPPLY', _c20.check_gates, ctx.prog, ctx.prog.func(
        ENF + '.load_rules'), only=['C20.FLAGS'])
    # after the reset every located directory is applied again, in order
    # (= C09.DIR-ORDER)
    from . import c09
    ctx.borrow('C10.REAPPLY', c09.check_dirs, only=['C09.DIR-ORDER'])
    # what a load remembers between calls (file cache, directory times) is
    # the enforcer's own: module-level state would let one enforcer's load
    # make another one skip its reload (= C12.GLOBALS)
    from . import c12 as _c12
    _region = dict(ctx.prog.region(ENF + '.load_rules', ENF + '.enforce'))
    ctx.borrow_soft('C10.STALE', _c20.check_cache_order,
                    only=['C20.CACHE-ORDER'])
    ctx.borrow('C10.STALE', _c12.check_globals, _region,
               only=['C12.GLOBALS'])
    # C10.FIND: a policy file created after start-up is found (= C09.FIND)
    nf, no = len(ctx.findings), len(ctx.obligations)
    c09.check_find(ctx)
    for fd in ctx.findings[nf:]:
        fd.rule = 'C10.FIND(' + fd.rule + ')'
    for o in ctx.obligations[no:]:
        o['rule'] = 'C10.FIND(' + o['rule'] + ')'

"""C02 - malformed rules and non-rule values never grant access.

(S) C02.REJECT / RESULT-TYPE: on every token string up to the bound that the
    reference grammar rejects, the table model + acceptance guards end on the
    failure path, and nothing but a check can be the accepted value.
(S) C02.TRUE-GUARD: TrueCheck() is constructible only for '', [], () and '@'.
(N) ITER-GUARD, HANDLERS, RAISE-CATCH, EACH-VALUE.
"""
import ast

from .. import PKG
from .. import grammar as G
from ..absval import Evaluator, feasible
from ..model import AnalysisError
from ..paths import Enumerator, exc_subclass
from ..util import U, is_const, method_call, parent_map, walk_no_nested
from . import c01

PARSER = PKG + '._parser'
CHECKS = PKG + '._checks'
POLICY = PKG + '.policy'

ALLOW_KINDS = ("''", '[]', '()')
# kinds that must never construct TrueCheck
DENY_KINDS = ('None', 'False', '0', '0.0', '{}', 'True', '5', '1.5', '{..}',
              "'!'", 'str', '[..]', '(..)')
NON_SEQ = ('None', 'False', '0', '0.0', '{}', 'True', '5', '1.5', '{..}')


def check_reject(ctx, classes, pstate, table, effects, model, pred):
    total, stats, bad = c01.run_table(
        ctx, 'C02', ('model-accepts-invalid', 'non-check-result',
                     'model-stuck'), model, pred, table, pstate)
    ctx.count(total, [('C02.REJECT', 'kind', k) for k in stats])
    # a stuck reduction on a *valid* sentence is C01's finding
    bad = [x for x in bad if not (x[1] == 'model-stuck'
                                  and x[2].get('ref_accepts'))]
    seen = set()
    where = ctx.where(pstate.module, pstate.node)
    for s, v, d in sorted(bad, key=lambda x: (len(x[0]), x[0])):
        if v == 'model-stuck':
            key = (v, d.get('last_reducer'))
            if key in seen:
                continue
            seen.add(key)
            ctx.ob('C02.REJECT', False, where, pstate.qual,
                   'reducer table: ' + (d.get('last_reducer') or '-'),
                   'loading the malformed rule `%s` fails inside a reducer '
                   '(%s) instead of denying' % (' '.join(s), d.get('error')),
                   witness={'tokens': list(s), 'detail': d})
            continue
        # accepted although not a sentence
        res = d.get('result')
        is_str = v == 'non-check-result' or (res or '').startswith("'")
        if len(s) == 1:
            key = ('lone', s[0])
            construct = 'lone token `%s`' % s[0]
        else:
            key = (v, d.get('last_reducer'), tuple(d.get('stack') or ()))
            construct = 'token string `%s`' % ' '.join(s)
        if key in seen:
            continue
        seen.add(key)
        rule = 'C02.RESULT-TYPE' if is_str else 'C02.REJECT'
        ctx.ob(rule, False, where, pstate.qual, construct,
               ('the parser accepts %s and returns the raw string %s, which '
                'enforcement cannot evaluate' % (construct, res)) if is_str
               else 'the parser accepts %s, which is not a sentence of the '
               'rule language (result %s)' % (construct, res),
               witness={'tokens': list(s), 'verdict': v, 'detail': d})
    if not bad:
        ctx.ob('C02.REJECT', True, where, pstate.qual,
               'reducer table + acceptance guards',
               'every one of the %d rejected token strings up to the bound '
               'ends on the failure path; accepted values are checks' %
               stats.get('agree-reject', 0))


def check_true_guard(ctx, classes):
    prog = ctx.prog
    pr, en, paths = c01.parse_rule_paths(ctx)
    param = pr.params[0]
    dom = c01.kinds_domain()

    def modof(frame):
        return prog.functions[frame].module if frame in prog.functions \
            else pr.module
    W = ctx.where(pr.module, pr.node)
    # --- every TrueCheck construction site of the region must be a path
    # outcome of parse_rule (inlined) or the '@' site of the leaf parser
    region = prog.region(pr)
    sites = []
    for q, f in region.items():
        for c in ast.walk(f.node):
            if isinstance(c, ast.Call) and prog.resolve(
                    f.module, c.func) == CHECKS + '.TrueCheck':
                sites.append((f, c))
    ctx.floor('C02.TRUE-GUARD', len(sites), 1, 'TrueCheck sites')
    outcome_sites = set()
    for p in paths:
        if p.outcome.kind == 'return' and p.outcome.expr is not None:
            e = en.expand(p.outcome.expr)
            if isinstance(e, ast.Call):
                outcome_sites.add((p.outcome.frame, p.outcome.line))
    # --- per kind
    n = 0
    for k in DENY_KINDS:
        av = dom[k]

        def evf(cond, av=av):
            return Evaluator(prog, modof(cond.frame), {param: av})
        feas = feasible(paths, evf)
        bad = [(p, u) for p, u in feas
               if c01.outcome_class(ctx, en, modof, p) == 'true']
        n += 1
        if bad:
            p = bad[0][0]
            ctx.ob('C02.TRUE-GUARD', False,
                   '%s:%d' % (W.split(':')[0], p.outcome.line),
                   p.outcome.frame, 'TrueCheck() reachable for %s' % av.label,
                   'a rule value %s (not a rule) parses to always-allow; '
                   'path: %s' % (av.label, p.cond_text()),
                   witness={'kind': k, 'path': p.cond_text()})
        else:
            ctx.ob('C02.TRUE-GUARD', True, W, pr.qual,
                   'rule value %s' % av.label,
                   'no feasible path constructs TrueCheck (%d feasible '
                   'paths)' % len(feas))
    # --- ITER-GUARD at top level: non-sequence kinds never reach an
    # iteration over the rule value
    for k in NON_SEQ:
        av = dom[k]

        def evf(cond, av=av):
            return Evaluator(prog, modof(cond.frame), {param: av})
        feas = feasible(paths, evf)
        hit = None
        for p, u in feas:
            for c in p.conds:
                if c.kind == 'loop' and c.pol and U(c.expr) == param:
                    hit = (p, c)
                    break
            if hit:
                break
        # kinds that are not iterable at all fail at load (accepted); only
        # mappings are silently iterated by key
        if k != '{..}':
            continue
        n += 1
        ctx.ob('C02.ITER-GUARD', hit is None, '%s:%d' % (
            W.split(':')[0], hit[1].line) if hit else W,
            hit[1].frame if hit else pr.qual,
            'iteration over a mapping rule value',
            'a non-empty mapping never reaches the list-rule iteration'
            if hit is None else
            'a mapping given as rule value is iterated by its keys, which '
            'are parsed as live checks (path: %s)' % hit[0].cond_text(),
            witness={'kind': k})
    # --- ITER-GUARD for inner elements
    elem_syms = [s for s, d in en.defs.items()
                 if isinstance(d, tuple) and d and d[0] == 'elem'
                 and U(d[1]) == param]
    for es in elem_syms:
        for k in ('{..}',):
            av = dom[k]

            def evf(cond, av=av, es=es):
                return Evaluator(prog, modof(cond.frame),
                                 {param: dom['[..]'], es: av})
            feas = feasible([p for p in paths
                             if any(U(c.expr) == param and c.kind == 'loop'
                                    and c.pol for c in p.conds)], evf)
            hit = None
            for p, u in feas:
                for ev in p.events:
                    nodes = [ev.node]
                    if ev.sym and isinstance(en.defs.get(ev.sym), ast.AST):
                        nodes.append(en.defs[ev.sym])
                    for node in [x for nd in nodes for x in ast.walk(nd)]:
                        if isinstance(node, (ast.ListComp, ast.GeneratorExp,
                                             ast.SetComp)):
                            it = node.generators[0].iter
                            if isinstance(it, ast.Name) and it.id == es:
                                hit = (p, ev)
                    if ev.kind == 'iter' and isinstance(
                            ev.node, ast.Name) and ev.node.id == es:
                        hit = (p, ev)
                if hit:
                    break
            n += 1
            ctx.ob('C02.ITER-GUARD', hit is None, '%s:%d' % (
                W.split(':')[0], hit[1].line) if hit else W,
                hit[1].frame if hit else pr.qual,
                'iteration over a mapping element of a list rule',
                'a mapping inside a list rule is never iterated'
                if hit is None else
                'a mapping inside a list rule is iterated by its keys, which '
                'are parsed as live checks (path: %s)' % hit[0].cond_text(),
                witness={'kind': 'list holding ' + k})
    # --- raw pass-through: no path returns the rule value itself / a constant
    for p in paths:
        if p.outcome.kind == 'return':
            e = p.outcome.expr
            raw = e is None or isinstance(e, ast.Constant) or (
                isinstance(e, ast.Name) and e.id == param)
            if raw:
                n += 1
                ctx.ob('C02.RESULT-TYPE', False, '%s:%d' % (
                    W.split(':')[0], p.outcome.line), p.outcome.frame,
                    'return ' + (U(e) if e is not None else 'None'),
                    'parse_rule can return something that is not a check '
                    '(path: %s)' % p.cond_text())
        elif p.outcome.kind == 'end':
            n += 1
            ctx.ob('C02.RESULT-TYPE', False, W, p.outcome.frame or pr.qual,
                   'falls off the end', 'parse_rule can return None (path: '
                   '%s)' % p.cond_text())
    # --- the leaf parser: TrueCheck only for '@'
    pc = prog.func(PARSER + '._parse_check')
    en2 = Enumerator(prog, pc, handler_paths=True,
                     inline=c01.leaf_inline(prog))
    p2 = en2.run()
    prm = pc.params[0]
    for k in ("'!'", 'str', "''"):
        av = dom[k]

        def evf2(cond, av=av):
            return Evaluator(prog, pc.module, {prm: av})
        feas = feasible(p2, evf2)
        bad = [p for p, u in feas if c01.outcome_class(
            ctx, en2, lambda fr: pc.module, p) == 'true']
        n += 1
        ctx.ob('C02.TRUE-GUARD', not bad, ctx.where(pc.module, pc.node),
               pc.qual, 'single check %s' % av.label,
               'cannot construct TrueCheck' if not bad else
               'a single check text %s parses to always-allow (path: %s)' % (
                   av.label, bad[0].cond_text()))
    # sites not explained by the two analyses
    explained = set()
    for p in paths:
        if c01.outcome_class(ctx, en, modof, p) == 'true':
            explained.add(getattr(en.expand(p.outcome.expr), 'lineno', -1))
    for p in p2:
        if c01.outcome_class(ctx, en2, lambda fr: pc.module, p) == 'true':
            explained.add(getattr(en2.expand(p.outcome.expr), 'lineno', -1))
    for f, c in sites:
        ok = f.module.name == PARSER and c.lineno in explained
        n += 1
        ctx.ob('C02.TRUE-GUARD', ok, ctx.where(f.module, c), f.qual,
               'TrueCheck() construction site',
               'is the direct result for an always-allow input' if ok else
               'TrueCheck is constructed at a site that is not the direct '
               'result of parsing an always-allow input')
    return pr, en, paths


def check_handlers(ctx):
    """Every except body in region(parse_rule) yields FalseCheck."""
    prog = ctx.prog
    pr = prog.func(PARSER + '.parse_rule')
    region = prog.region(pr)
    nh = 0
    for q, f in sorted(region.items()):
        if f.module.name != PARSER:
            continue
        trys = [n for n in walk_no_nested(f.node) if isinstance(n, ast.Try)]
        if not trys:
            continue
        en = Enumerator(prog, f, handler_paths=True)
        paths = en.run()
        for t in trys:
            # `try: h = REGISTRY[kind] / except KeyError:` asks whether the
            # kind is registered; what follows is handler selection, judged
            # by the leaf-parser clause below, not a parse error
            if len(t.body) == 1 and isinstance(
                    t.body[0], (ast.Assign, ast.Expr)) and isinstance(
                        t.body[0].value, ast.Subscript) and all(
                    U(h.type or '') == 'KeyError' for h in t.handlers) and \
                    not any(isinstance(x, ast.Call) and U(x.func).split(
                        '.')[-1] not in ('get_extensions',)
                        for x in ast.walk(t.body[0].value)):
                continue
            for h in t.handlers:
                nh += 1
                tag = 'try@%d' % t.lineno
                mine = [p for p in paths if any(
                    c.kind == 'exc' and isinstance(c.expr, ast.Constant)
                    and tag in str(c.expr.value) and c.line == h.lineno
                    for c in p.conds)]
                outs = {c01.outcome_class(ctx, en, lambda fr: f.module, p)
                        for p in mine}
                ok = outs == {'false'}
                if not ok and f is not pr and mine and all(
                        p.outcome.kind == 'return' for p in mine):
                    # a helper that reports the failure to its caller (None,
                    # a sentinel): judged where the caller turns it into a
                    # check
                    from ..dte import inline_helpers
                    callers = [g for g in region.values()
                               if g is not f and any(
                                   isinstance(c, ast.Call)
                                   and prog.callee_of(g, c) is f
                                   for c in ast.walk(g.node))]
                    outs2 = set()
                    for g in callers:
                        en2 = Enumerator(
                            prog, g, handler_paths=True, max_depth=3,
                            inline=(lambda call, frame, _f=f:
                                    _f if prog.callee_of(frame, call) is _f
                                    else None))
                        for p in en2.run():
                            if any(c.kind == 'exc' and isinstance(
                                    c.expr, ast.Constant) and tag in str(
                                        c.expr.value) and c.line == h.lineno
                                   for c in p.conds):
                                outs2.add(c01.outcome_class(
                                    ctx, en2, lambda fr, _g=g: _g.module, p))
                    if callers and outs2 == {'false'}:
                        ok = True
                ctx.ob('C02.HANDLERS', ok, ctx.where(f.module, h), f.qual,
                       'except %s' % (U(h.type) if h.type is not None
                                      else ''),
                       'handler fails closed (FalseCheck on every path)'
                       if ok else 'a parse-error handler does not fail '
                       'closed: outcomes %s' % sorted(outs))
    ctx.floor('C02.HANDLERS', nh, 1, 'handlers')
    # leaf parser fall-through
    pc = prog.func(PARSER + '._parse_check')
    en = Enumerator(prog, pc, handler_paths=True,
                    inline=c01.leaf_inline(prog))
    for p in en.run():
        oc = c01.outcome_class(ctx, en, lambda fr: pc.module, p)
        if oc in ('true', 'false'):
            continue
        e = en.expand(p.outcome.expr) if p.outcome.kind == 'return' and \
            p.outcome.expr is not None else None
        ok = isinstance(e, ast.Call) and isinstance(e.func, ast.Subscript) \
            and len(e.args) == 2
        if not ok and isinstance(e, ast.Call) and len(e.args) == 2:
            # the class looked up in the registries some other way
            # (.get(), a ChainMap of them ...)
            fx = en.expand(e.func)
            ft = U(fx)
            ok = (isinstance(fx, ast.Subscript) or (
                isinstance(fx, ast.Call) and bool(method_call(fx, 'get')))) \
                and ('registered_checks' in ft or 'get_extensions(' in ft)
        if not ok and isinstance(e, ast.Call) and isinstance(
                en.expand(e.func), ast.Subscript):
            # a constant of the language picked from a constant table of
            # the two constant classes (C01.CONST decides which is which)
            ok = c01.const_class_table(prog, pc.module,
                                       en.expand(e.func).value)
        ctx.ob('C02.HANDLERS', ok, '%s:%d' % (
            ctx.where(pc.module, pc.node).split(':')[0], p.outcome.line),
            pc.qual, 'leaf parser result ' + p.outcome.text(),
            'constructs the registered check class' if ok else
            'the single-check parser can produce something other than a '
            'registered check or FalseCheck')


def check_raise_catch(ctx, pstate):
    prog = ctx.prog
    res = pstate.methods.get('result')
    raised = set()
    for n in walk_no_nested(res.node):
        if isinstance(n, ast.Raise) and n.exc is not None:
            from ..util import raised_class_exprs
            for c in raised_class_exprs(res.node, n):
                raised.add(prog.resolve(res.module, c))
    # where is it read?
    pr = prog.func(PARSER + '.parse_rule')
    n_sites = 0
    for q, f in prog.region(pr).items():
        pm = parent_map(f.node)
        for n in walk_no_nested(f.node):
            if isinstance(n, ast.Attribute) and n.attr == 'result' and \
                    isinstance(n.ctx, ast.Load) and f.cls is not pstate:
                n_sites += 1
                caught = set()
                cur = n
                anc = pm.get(n)
                while anc is not None:
                    if isinstance(anc, ast.Try) and any(
                            cur is b for b in anc.body):
                        for h in anc.handlers:
                            if h.type is None:
                                caught.add('builtin:BaseException')
                            else:
                                ts = h.type.elts if isinstance(
                                    h.type, ast.Tuple) else [h.type]
                                caught |= {prog.resolve(f.module, t)
                                           for t in ts}
                    cur = anc
                    anc = pm.get(anc)
                missing = [r for r in raised if not any(
                    r == c or exc_subclass(r, c) for c in caught)]
                ctx.ob('C02.RAISE-CATCH', not missing, ctx.where(f.module, n),
                       f.qual, 'read of the parse result',
                       'the failure exception %s is caught where the result '
                       'is read' % sorted(raised) if not missing else
                       'the parse-failure exception %s is not caught where '
                       'the result is read (caught: %s)' % (
                           missing, sorted(x for x in caught if x)))
    ctx.floor('C02.RAISE-CATCH', n_sites, 1, 'result reads')
    ctx.floor('C02.RAISE-CATCH', len(raised), 1, 'raise sites')


def check_each_value(ctx):
    prog = ctx.prog
    from ..dte import Table, inline_helpers
    n = 0
    pfq = POLICY + '.parse_file_contents'
    for name in ('load', 'from_dict'):
        f = prog.func(POLICY + '.Rules.' + name)
        t = Table(prog, f, inline=inline_helpers(
            prog, modules={POLICY}, exclude={pfq}), comps=True,
            handler_paths=False, max_depth=4)
        src_param = f.params[1] if len(f.params) > 1 else None
        good = 0
        bad = None
        for p in t.paths:
            if p.outcome.kind != 'return' or p.outcome.expr is None:
                continue
            e = t.expand(p.outcome.expr)
            if not (isinstance(e, ast.Call) and e.args and (
                    U(e.func) == 'cls' or prog.resolve(
                        t.module_of(p.outcome.frame), e.func)
                    == POLICY + '.Rules')):
                if isinstance(e, ast.Call) and not e.args and (
                        U(e.func) == 'cls' or prog.resolve(
                            t.module_of(p.outcome.frame), e.func)
                        == POLICY + '.Rules'):
                    raise AnalysisError(
                        '%s builds an empty rule store and fills it entry '
                        'by entry: the rule that every value of the mapping '
                        'goes through parse_rule reads the store built from '
                        'one parsed mapping' % f.qual)
                bad = bad or (p, 'does not build the rule store from the '
                              'parsed mapping (%s)' % U(e)[:60])
                continue
            raw = p.outcome.expr
            if isinstance(raw, ast.Name) and isinstance(
                    t.en.defs.get(raw.id), ast.Call):
                raw = t.en.defs[raw.id]
            M = raw.args[0] if isinstance(raw, ast.Call) and raw.args \
                else None
            loops = []
            for c in p.conds:
                if c.kind != 'loop':
                    continue
                it = t.expand(c.expr)
                mc = method_call(it, 'items') if isinstance(it, ast.Call) \
                    else None
                if not mc:
                    continue
                src = mc[0]
                is_src = (name == 'from_dict' and U(src) == src_param) or (
                    isinstance(src, ast.Call) and prog.resolve(
                        f.module, src.func) == pfq) or (
                    name == 'load' and isinstance(src, ast.Name)
                    and src.id in f.params)
                if is_src:
                    loops.append(c)
            if not loops:
                bad = bad or (p, 'the given mapping is not walked entry by '
                              'entry')
                continue
            c = loops[0]
            if not c.pol:
                continue
            elem = None
            for sym, d in t.en.defs.items():
                if isinstance(d, tuple) and d and d[0] == 'elem' and \
                        d[1] is c.expr:
                    elem = sym
            parsed = False
            for ev in p.events:
                if ev.kind != 'store' or not isinstance(ev.node,
                                                        ast.Subscript):
                    continue
                if M is None or U(ev.node.value) != U(M):
                    continue
                v = t.expand(ev.value)
                if isinstance(v, ast.Call) and prog.resolve(
                        t.module_of(ev.frame), v.func) == \
                        PARSER + '.parse_rule' and len(v.args) == 1 and \
                        not v.keywords and U(v.args[0]) == '%s[1]' % elem \
                        and U(ev.node.slice) == '%s[0]' % elem:
                    parsed = True
            if parsed:
                good += 1
            else:
                bad = bad or (p, 'an entry of the mapping can reach the rule '
                              'store without going through parse_rule, or '
                              'not at all (path: %s)' % p.cond_text()[-160:])
        n += 1
        ok = bad is None and good > 0
        ctx.ob('C02.EACH-VALUE', ok, '%s:%d' % (
            ctx.where(f.module, f.node).split(':')[0], bad[0].outcome.line)
            if bad else ctx.where(f.module, f.node), f.qual,
            'Rules.%s' % name,
            'every value is parsed with parse_rule' if ok else
            'not every value of the mapping goes through parse_rule: %s' % (
                bad[1] if bad else 'no parsing path found'))
    # the mapping that is parsed is the decoded file itself: nothing is
    # dropped or rewritten between the decoder and the rule parser
    pf = prog.func(POLICY + '.parse_file_contents')
    t = Table(prog, pf, inline=inline_helpers(prog, modules={POLICY}))
    bad = None
    for p in t.paths:
        if p.outcome.kind != 'return' or p.outcome.expr is None:
            continue
        raw = p.outcome.expr
        if isinstance(raw, ast.Name) and raw.id.startswith('SYM_m'):
            filled = any(
                (ev.kind in ('store', 'aug') and isinstance(
                    ev.node, ast.Subscript) and U(ev.node.value) == raw.id)
                or (ev.kind == 'call' and method_call(ev.node) and U(
                    method_call(ev.node)[0]) == raw.id)
                for ev in p.events)
            if filled:
                bad = bad or (p, 'a mapping assembled entry by entry')
                continue
        e = t.expand(p.outcome.expr)
        parts = e.values if isinstance(e, ast.BoolOp) and isinstance(
            e.op, ast.Or) else [e]
        for x in parts:
            if isinstance(x, ast.Dict) and not x.keys:
                continue
            r = prog.resolve(pf.module, x.func) if isinstance(
                x, ast.Call) else None
            if r and r.endswith(('jsonutils.loads', 'json.loads',
                                 'yaml.safe_load', 'yaml.load')):
                continue
            bad = bad or (p, U(x)[:80])
    ctx.ob('C02.EACH-VALUE', bad is None, ctx.where(pf.module, pf.node),
           pf.qual, 'parse_file_contents result',
           'returns the decoded mapping itself (or an empty mapping)'
           if bad is None else
           'parse_file_contents returns %s instead of the decoded mapping: '
           'entries with non-rule values can be dropped before the rule '
           'parser sees them, so the name falls back to the default rule '
           'instead of denying' % bad[1])
    return n


def check(ctx):
    ctx.use(PARSER, CHECKS, POLICY)
    ctx.explain(
        'C02: rejected token strings (seven kinds incl. string) up to the '
        'bound are driven through the extracted table model and acceptance '
        'guards; the abstract kinds of rule values (K domain: every JSON/'
        'YAML scalar and container type) are evaluated over the extracted '
        'paths of parse_rule to show TrueCheck is constructible only for '
        "'', [], () and '@'; handlers fail closed.")
    ctx.assume('rule values that raise inside the loader (non-iterable '
               'scalars) count as rejected at load')
    classes, pstate, table, effects, model = c01.grammar_model(ctx)
    pred, rows, unknown, res = c01.accept_predicate(ctx, pstate)
    check_reject(ctx, classes, pstate, table, effects, model, pred)
    check_true_guard(ctx, classes)
    check_handlers(ctx)
    check_raise_catch(ctx, pstate)
    check_each_value(ctx)
    # C02.TOKENS: the table-level rejection result only carries over to
    # rule *texts* if the tokenizer turns every character of the text into
    # tokens faithfully (parens peeled one token per character, nothing
    # swallowed) - the tokenizer rules of C01, reported here under C02
    from .. import tokenizer as T
    ctx._effects = effects
    nf, no = len(ctx.findings), len(ctx.obligations)
    tf, en, paths = T.extract(ctx.prog)
    c01.check_tokenizer(ctx, table, tf, en, paths)
    for f in ctx.findings[nf:]:
        f.rule = 'C02.TOKENS(' + f.rule + ')'
    for o in ctx.obligations[no:]:
        o['rule'] = 'C02.TOKENS(' + o['rule'] + ')'
    # a list rule never yields an AND over nothing (which would allow)
    nf2, no2 = len(ctx.findings), len(ctx.obligations)
    c01.check_list(ctx, classes, empty_and_rule='C02.TRUE-GUARD')
    # (the list rules themselves are cross-listed: a member or entry left
    # out of, or wrongly added to, the OR of ANDs can grant)
    ctx.findings[nf2:] = [f for f in ctx.findings[nf2:]
                          if f.rule in ('C02.TRUE-GUARD', 'C01.LIST')]
    ctx.obligations[no2:] = [o for o in ctx.obligations[no2:]
                             if o['rule'] in ('C02.TRUE-GUARD', 'C01.LIST')]
    for f_ in ctx.findings[nf2:]:
        if f_.rule == 'C01.LIST':
            f_.rule = 'C02.LIST(C01.LIST)'
    for o_ in ctx.obligations[no2:]:
        if o_['rule'] == 'C01.LIST':
            o_['rule'] = 'C02.LIST(C01.LIST)'
    # ... and only if every rule text goes through tokenizer + table at all
    # (no fast path that hands a text to the single-check parser directly)
    # ... a quoted word (the empty one included) is a string token, which
    # no reduction accepts: it never becomes an operand (= C05.QUOTED)
    from . import c05 as _c05
    ctx.borrow('C02.TOKENS', _c05.check_quoted, only=['C05.QUOTED'])
    ctx.borrow('C02.TOKENS', c01.check_text_driver, pstate,
               only=['C01.TEXT-DRIVER'])

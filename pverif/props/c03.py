"""C03 - unknown names fail closed; the default rule is the only fallback."""
import ast

from .. import PKG
from ..absval import AV
from ..dte import Table
from ..enforce_model import enforce_table, path_features
from ..model import AnalysisError
from ..paths import exc_subclass
from ..util import (U, is_const, kwarg, parent_map, walk_no_nested,
                    method_call,
                    self_attr)

POLICY = PKG + '.policy'
CHECKS = PKG + '._checks'
RULES = POLICY + '.Rules'
BASE = CHECKS + '.BaseCheck'


def dr_domain():
    subj = 'self.default_rule'
    return subj, {
        'None': (AV('None', False, types=('NoneType',), is_none=True,
                    eq={'*': False}), False, 'raise'),
        "''": (AV("''", False, types=('str',), eq={'': True, '*': False},
                  length=0), False, 'raise'),
        'name-in-store': (AV('name defined in the store', True,
                             types=('str',), eq={'': False},
                             length=('ge', 1)), True, 'lookup'),
        'name-not-in-store': (AV('name not in the store', True,
                                 types=('str',), eq={'': False},
                                 length=('ge', 1)), False, 'raise'),
        'check-object': (AV('check object', True, types=(BASE,),
                            eq={'*': False}), False, 'object'),
    }


def _get_with_sentinel(e, subj):
    """text of S for `self.get(<default rule>, S)` with S a plain name (a
    module-level sentinel object), else None"""
    if isinstance(e, ast.Call) and method_call(e, 'get') and U(
            method_call(e)[0]) == 'self' and len(e.args) == 2 and U(
                e.args[0]) == subj and isinstance(e.args[1], ast.Name):
        return e.args[1].id
    return None


def check_missing(ctx):
    prog = ctx.prog
    f = prog.func(RULES + '.__missing__')
    from ..dte import inline_helpers
    t = Table(prog, f, inline=inline_helpers(prog, modules={POLICY}),
              max_depth=4)
    subj, dom = dr_domain()
    W = ctx.where(f.module, f.node)
    key = f.params[1] if len(f.params) > 1 else 'key'

    def classify(p, ev=None):
        if p.outcome.kind == 'raise':
            r = t.raised_class(p)
            if r == 'builtin:KeyError':
                return 'raise'
            return 'raise-other:%s' % r
        if p.outcome.kind == 'end' or p.outcome.expr is None:
            return 'none'
        e = t.expand(p.outcome.expr)
        while isinstance(e, ast.IfExp) and ev is not None:
            v = ev.ev(e.test)
            if v is None:
                break
            e = t.expand(e.body if v else e.orelse)
        if U(e) == subj:
            return 'object'
        if _is_lookup(e):
            return 'lookup'
        if _get_with_sentinel(e, subj) is not None:
            # self.get(default, <sentinel>) on a path that excluded the
            # sentinel: the rule stored under the default name
            return 'lookup'
        return 'other:' + U(e)

    def _is_plain_lookup(e):
        """dict's own lookup, which never re-enters __missing__:
        super().__getitem__(default) / dict.__getitem__(self, default)"""
        if not (isinstance(e, ast.Call) and isinstance(
                e.func, ast.Attribute) and e.func.attr == '__getitem__'
                and not e.keywords):
            return False
        recv = U(e.func.value)
        if recv in ('super()', 'super(Rules, self)') and len(
                e.args) == 1 and U(e.args[0]) == subj:
            return True
        return recv == 'dict' and len(e.args) == 2 and U(
            e.args[0]) == 'self' and U(e.args[1]) == subj

    def _is_lookup(e):
        return (isinstance(e, ast.Subscript) and U(e.value) == 'self' and
                U(e.slice) == subj) or _is_plain_lookup(e)

    def _lookup_only_try(cond):
        """The exception condition belongs to a try whose body can raise only
        by the lookup of the default name in the store."""
        if not isinstance(cond.expr, ast.Constant) or 'try@' not in str(
                cond.expr.value):
            return False
        try:
            ln = int(str(cond.expr.value).split('try@')[1].split()[0]
                     .rstrip(':,)'))
        except ValueError:
            return False
        for n in walk_no_nested(f.node):
            if isinstance(n, ast.Try) and n.lineno == ln:
                if len(n.body) != 1 or not isinstance(
                        n.body[0], (ast.Assign, ast.Return, ast.Expr)):
                    return False
                v = n.body[0].value
                if v is None:
                    return False
                if isinstance(v, ast.Subscript) and isinstance(
                        v.slice, ast.Name) and v.slice.id in aliases:
                    return U(v.value) == 'self'
                return _is_lookup(t.expand(v))
        return False

    # local names bound (once) to the default rule
    aliases = set()
    stores = {}
    for n in walk_no_nested(f.node):
        if isinstance(n, ast.Name) and isinstance(n.ctx, ast.Store):
            stores[n.id] = stores.get(n.id, 0) + 1
    for n in walk_no_nested(f.node):
        if isinstance(n, ast.Assign) and len(n.targets) == 1 and isinstance(
                n.targets[0], ast.Name) and U(n.value) == subj and \
                stores.get(n.targets[0].id) == 1:
            aliases.add(n.targets[0].id)

    def key_cmp(x):
        """+1 for `key == default` / `key is default`, else 0."""
        if isinstance(x, ast.Compare) and len(x.ops) == 1 and isinstance(
                x.ops[0], (ast.Eq, ast.Is)):
            a, b = U(t.expand(x.left)), U(t.expand(x.comparators[0]))
            if {a, b} == {key, subj}:
                return True
        return False

    def outcomes(av, in_store, key_is_default):
        def oracle(expr):
            # membership of the default rule name in the store
            if isinstance(expr, ast.Compare) and len(expr.ops) == 1 and \
                    isinstance(expr.ops[0], ast.In) and \
                    U(expr.left) == subj and U(expr.comparators[0]) in (
                        'self', 'self.keys()'):
                return in_store
            if key_is_default is not None and key_cmp(expr):
                return key_is_default
            # self.get(default, SENTINEL) is SENTINEL  <=>  not in the store
            x = t.expand(expr)
            if isinstance(x, ast.Compare) and len(x.ops) == 1 and \
                    isinstance(x.ops[0], (ast.Is, ast.IsNot)):
                for a, b in ((x.left, x.comparators[0]),
                             (x.comparators[0], x.left)):
                    sent = _get_with_sentinel(a, subj)
                    if sent is not None and U(b) == sent:
                        return (not in_store) == isinstance(x.ops[0],
                                                            ast.Is)
            return None
        from ..absval import Evaluator
        ev = Evaluator(prog, f.module, {subj: av}, oracle=oracle)
        outs = {}
        for p, unk in t.feasible({subj: av}, oracle):
            outs.setdefault(classify(p, ev), []).append(p)
        return outs

    for k, (av, in_store, want) in dom.items():
        # __missing__ runs for a key that is not in the store: a default
        # name that is in the store is not that key
        outs = outcomes(av, in_store, False if in_store else None)
        if in_store:
            # the stored default is found: the lookup does not raise
            for o in list(outs):
                outs[o] = [p for p in outs[o] if not any(
                    c.kind == 'exc' and _lookup_only_try(c)
                    for c in p.conds)]
                if not outs[o]:
                    del outs[o]
        elif 'lookup' in outs and 'name' in k:
            # `self[default]` for a default name that is not in the store
            # re-enters __missing__ with that name as the key: when that
            # inner call can only raise KeyError, so does the lookup (the
            # path on which it is caught is enumerated separately)
            plain = all(p.outcome.expr is not None and _is_plain_lookup(
                t.expand(p.outcome.expr)) for p in outs['lookup'])
            inner = {'raise': []} if plain else outcomes(av, in_store, True)
            if set(inner) == {'raise'}:
                del outs['lookup']
                outs.setdefault('raise', [])
        ok = set(outs) == {want}
        ctx.count(len(t.paths))
        wrong = [(o, ps[0].cond_text() if ps else '') for o, ps in
                 outs.items() if o != want]
        human = {'raise': 'raises KeyError (no usable default)',
                 'lookup': 'returns the rule stored under the default name',
                 'object': 'returns the default check object'}[want]
        ctx.ob('C03.MISSING', ok, W, f.qual,
               'default rule = %s' % av.label,
               human if ok else
               'for a default rule that is %s a lookup of an unknown name '
               'should %s but can %s' % (av.label, human, wrong),
               witness={'default_rule': k, 'expected': want,
                        'got': sorted(outs), 'paths': wrong})
    return f


def check_no_override(ctx):
    prog = ctx.prog
    c = prog.cls(RULES)
    bad = [m for m in ('__getitem__', 'get', '__contains__',
                       '__getattribute__') if m in c.methods]
    ctx.ob('C03.NO-OVERRIDE', not bad, ctx.where(c.module, c.node), c.qual,
           'Rules lookup protocol',
           'defined names are looked up by dict itself; only __missing__ '
           'handles absent names' if not bad else
           'Rules overrides %s, so a defined name may be decided by '
           'something other than its own definition' % bad)
    bases = c.bases
    ok = 'builtin:dict' in bases
    ctx.ob('C03.NO-OVERRIDE', ok, ctx.where(c.module, c.node), c.qual,
           'Rules bases %s' % bases, 'Rules is a dict' if ok else
           'Rules is no longer a plain dict subclass')


def check_raise_catch(ctx):
    """Every rule-store lookup on an evaluation path catches what
    __missing__ raises and then denies."""
    prog = ctx.prog
    miss = prog.func(RULES + '.__missing__')
    raised = set()
    for n in walk_no_nested(miss.node):
        if isinstance(n, ast.Raise) and n.exc is not None:
            from ..util import raised_class_exprs
            for c in raised_class_exprs(miss.node, n):
                raised.add(prog.resolve(miss.module, c))
    if not raised:
        raise AnalysisError('__missing__ raises nothing')
    sites = []
    enf = prog.func(POLICY + '.Enforcer.enforce')
    alias_cls = prog.registered_checks().get('rule')
    if alias_cls is None:
        raise AnalysisError("no class registered for kind 'rule'")
    alias_call = prog.find_method(alias_cls, '__call__')
    for f, recv in ((enf, 'self.rules'), (alias_call, None)):
        pm = parent_map(f.node)
        for n in walk_no_nested(f.node):
            if isinstance(n, ast.Subscript) and isinstance(n.ctx, ast.Load):
                v = U(n.value)
                if (recv and v == recv) or (not recv and v.endswith(
                        '.rules') and v.split('.')[0] in f.params):
                    sites.append((f, n, pm))
    ctx.floor('C03.RAISE-CATCH', len(sites), 1, 'rule-store lookups')
    for f, n, pm in sites:
        caught = set()
        handlers = []
        cur, anc = n, pm.get(n)
        while anc is not None:
            if isinstance(anc, ast.Try) and any(
                    cur is b for b in anc.body):
                for h in anc.handlers:
                    ts = ['builtin:BaseException'] if h.type is None else [
                        prog.resolve(f.module, x) for x in (
                            h.type.elts if isinstance(h.type, ast.Tuple)
                            else [h.type])]
                    caught |= set(ts)
                    handlers.append(h)
            cur, anc = anc, pm.get(anc)
        # a decorator of the program whose wrapper calls the function
        # inside a try covers every site of the function
        w = prog.wrapper_of(f)
        if w is not None:
            for tnode in ast.walk(w[0]):
                if isinstance(tnode, ast.Try) and any(
                        isinstance(c, ast.Call) and isinstance(
                            c.func, ast.Name) and c.func.id == w[1]
                        for b in tnode.body for c in ast.walk(b)):
                    for h in tnode.handlers:
                        ht = h.type
                        if len(w) > 2 and isinstance(ht, ast.Name) and \
                                ht.id in w[2]:
                            ht = w[2][ht.id]
                        ts = ['builtin:BaseException'] if ht is None else [
                            prog.resolve(f.module, x) for x in (
                                ht.elts if isinstance(ht, ast.Tuple)
                                else [ht])]
                        caught |= set(ts)
                        handlers.append(h)
        missing = [r for r in raised if not any(
            r == c or exc_subclass(r, c) for c in caught)]
        # a handler that raises again (under whatever condition) lets the
        # lookup failure out after all
        for h in handlers:
            rr = [x for x in ast.walk(h) if isinstance(x, ast.Raise)]
            if rr and not missing:
                ctx.ob('C03.RAISE-CATCH', False, ctx.where(f.module, rr[0]),
                       f.qual, 'handler of the lookup ' + U(n),
                       'the handler for the lookup failure raises again '
                       '(line %d): a lookup of an undefined rule can end in '
                       '%s instead of a denial' % (rr[0].lineno,
                                                   sorted(raised)))
        ctx.ob('C03.RAISE-CATCH', not missing, ctx.where(f.module, n), f.qual,
               'lookup ' + U(n),
               'the lookup failure %s is handled' % sorted(raised)
               if not missing else
               'a lookup of an undefined rule raises %s which is not caught '
               'here: enforcement fails instead of denying' % missing)
    # alias handler result is constant False
    t = Table(prog, alias_call)
    for p in t.paths:
        if any(c.kind == 'exc' for c in p.conds):
            ok = p.outcome.kind == 'return' and is_const(
                p.outcome.expr, False)
            ctx.ob('C03.RAISE-CATCH', ok, ctx.where(
                alias_call.module, alias_call.node), alias_call.qual,
                'undefined reference -> ' + p.outcome.text(),
                'an undefined rule reference denies' if ok else
                'an undefined rule reference does not deny')


def _hook_answers_for_empty_store(ctx):
    """(where, conditions) of a path of Rules.__missing__ that returns the
    default rule object and whose conditions never mention the store itself
    (a bare `self`: truth, length, membership, iteration); None if there is
    no such path."""
    prog = ctx.prog
    f = prog.func(RULES + '.__missing__')
    from ..dte import inline_helpers
    t = Table(prog, f, inline=inline_helpers(prog, modules={POLICY}),
              max_depth=4)
    subj, _ = dr_domain()
    me = f.params[0] if f.params else 'self'

    def bare_self(e):
        if e is None or not isinstance(e, ast.AST):
            return False
        pm = parent_map(e)
        for n in ast.walk(e):
            if isinstance(n, ast.Name) and n.id == me:
                par = pm.get(n)
                if not (isinstance(par, ast.Attribute) and par.value is n):
                    return True
        return False

    for p in t.paths:
        if p.outcome.kind != 'return' or p.outcome.expr is None:
            continue
        if U(t.expand(p.outcome.expr)) != subj:
            continue
        if any(bare_self(t.expand(c.expr)) if isinstance(
                c.expr, ast.AST) else True for c in p.conds):
            continue
        return (ctx.where(f.module, p.outcome.node
                          if getattr(p.outcome, 'node', None) is not None
                          else f.node), p.cond_text())
    return None


def check_fail_closed(ctx):
    """enforce: empty store / lookup failure give constant False before the
    do_raise gate."""
    prog = ctx.prog
    t = enforce_table(ctx)
    enf = t.enf
    W = ctx.where(enf.module, enf.node)
    n_empty = n_exc = 0
    bad_empty = bad_exc = None
    for p in t.paths:
        feats = None
        empty = any(c.kind == 'test' and U(c.expr) == 'self.rules'
                    and not c.pol for c in p.conds)
        exc = any(c.kind == 'exc' and 'KeyError' in str(
            getattr(c.expr, 'value', '')) for c in p.conds)
        if not (empty or exc):
            continue
        # rule is a name here (not a check object)
        feats = path_features(t, p)
        denies = (p.outcome.kind == 'raise') or (
            p.outcome.kind == 'return' and is_const(p.outcome.expr, False))
        if exc and any(e.kind != 'maycall' for _, e in feats['check']):
            denies = False
        if empty:
            n_empty += 1
            if not denies or feats['check']:
                bad_empty = p
        if exc:
            n_exc += 1
            if not denies:
                bad_exc = p
    ctx.count(len(t.paths))
    if n_empty == 0 and n_exc:
        # enforce never asks whether the store is empty before looking the
        # name up: then the store's missing-key hook decides, and a path of
        # the hook that hands back the default *object* under conditions that
        # do not mention the store's content answers for an empty store too
        hook = _hook_answers_for_empty_store(ctx)
        if hook is not None:
            ctx.ob('C03.FAIL-CLOSED', False, W, enf.qual,
                   'empty rule store (0 paths)',
                   'enforce looks a name up without asking whether the rule '
                   'store is empty, and the missing-key hook returns the '
                   'default check object (%s, on: %s) whatever the store '
                   'holds: with an empty rule set an undefined name is '
                   'decided by the default instead of denied' % hook)
    ctx.floor('C03.FAIL-CLOSED', n_empty, 1, 'empty-store paths')
    ctx.floor('C03.FAIL-CLOSED', n_exc, 1, 'lookup-failure paths')
    ctx.ob('C03.FAIL-CLOSED', bad_empty is None, W, enf.qual,
           'empty rule store (%d paths)' % n_empty,
           'enforcing with no rules denies (False or the do_raise '
           'exception)' if bad_empty is None else
           'with an empty rule store enforce can %s (path: %s)' % (
               bad_empty.outcome.text(), bad_empty.cond_text()))
    ctx.ob('C03.FAIL-CLOSED', bad_exc is None, W, enf.qual,
           'lookup failure (%d paths)' % n_exc,
           'an unknown policy name without usable default denies'
           if bad_exc is None else
           'when the rule lookup fails enforce can %s (path: %s)' % (
               bad_exc.outcome.text(), bad_exc.cond_text()))


def check_deny_reasons(ctx):
    """A name is denied only because the store is empty, the lookup failed,
    the scope gate said no, or its definition denied; enforce keeps no
    state of its own."""
    from ..effects import effects_of
    from ..enforce_model import scope_gate
    prog = ctx.prog
    t = enforce_table(ctx, inline_gate=False)
    enf = t.enf
    gate = scope_gate(prog)
    W = ctx.where(enf.module, enf.node)
    bad = None
    for p in t.paths:
        if p.outcome.kind != 'return' or not is_const(p.outcome.expr,
                                                      False):
            continue
        empty = any(c.kind == 'test' and U(c.expr) == 'self.rules'
                    and not c.pol for c in p.conds)
        failed = any(c.kind == 'exc' and 'KeyError' in str(
            getattr(c.expr, 'value', '')) for c in p.conds)
        from ..enforce_model import gate_cond
        gated = any(gate_cond(t, c) and not c.pol for c in p.conds)
        if not (empty or failed or gated) and bad is None:
            bad = p
    ctx.ob('C03.FAIL-CLOSED', bad is None, W, enf.qual,
           'reasons for a constant denial',
           'enforce answers a constant False only for an empty store, a '
           'failed lookup or a failed scope gate' if bad is None else
           'enforce can deny without consulting the rule store (path: %s): '
           'a name that is defined may not be decided by its own '
           'definition' % bad.cond_text()[-300:])
    effs = [e for e in effects_of(enf)
            if not (e.kind == 'substore' and e.path == enf.params[3])]
    effs = [e for e in effs if e.path.split('.')[0].split('[')[0]
            in ('self',) or e.kind == 'global']
    ctx.ob('C03.FAIL-CLOSED', not effs, ctx.where(enf.module, effs[0].node)
           if effs else W, enf.qual,
           'state written by enforce: %s' % ([U(e.node)[:50] for e in effs]
                                             or 'none'),
           'enforce keeps no state between calls' if not effs else
           'enforce writes enforcer state (%s): what one call remembers '
           '(e.g. names found undefined) can decide a later call instead '
           'of the current rule store' % effs[0].path)


def check_set_defaults(ctx):
    """opts.set_defaults() is how a service changes the library defaults of
    the options - policy_default_rule=None ("no default rule") included.  The
    overrides reach oslo.config as given: a filter on their values makes
    some settings impossible to express."""
    prog = ctx.prog
    f = prog.functions.get(PKG + '.opts.set_defaults')
    if f is None or f.node.args.kwarg is None:
        return
    kw = f.node.args.kwarg.arg
    local = {}
    for n in ast.walk(f.node):
        if isinstance(n, ast.Assign) and len(n.targets) == 1 and isinstance(
                n.targets[0], ast.Name):
            local.setdefault(n.targets[0].id, []).append(n.value)
    for c in ast.walk(f.node):
        if not (isinstance(c, ast.Call) and U(c.func).endswith(
                'set_defaults') and prog.callee_of(f, c) is None):
            continue
        for k in c.keywords:
            if k.arg is not None:
                continue
            srcs = [k.value]
            seen = set()
            filt = None
            while srcs:
                x = srcs.pop()
                if id(x) in seen:
                    continue
                seen.add(id(x))
                if isinstance(x, ast.Name) and x.id in local:
                    srcs.extend(local[x.id])
                for y in ast.walk(x):
                    if isinstance(y, (ast.DictComp, ast.GeneratorExp,
                                      ast.ListComp)):
                        for g in y.generators:
                            if g.ifs:
                                filt = g.ifs[0]
            direct = isinstance(k.value, ast.Name) and k.value.id == kw \
                and kw not in local
            if filt is None and not direct:
                continue
            ctx.ob('C03.DEFAULT-SRC', filt is None, ctx.where(f.module, c),
                   f.qual, 'overrides **%s' % U(k.value)[:40],
                   'the caller\'s overrides are handed to oslo.config as '
                   'given' if filt is None else
                   'overrides are filtered (`if %s`) before they reach '
                   'oslo.config: set_defaults(conf, policy_default_rule='
                   'None) - "no default rule" - is silently ignored and '
                   'unknown names go on falling back to the rule `default`'
                   % U(filt)[:40])


def check_default_src(ctx):
    prog = ctx.prog
    check_set_defaults(ctx)
    init = prog.func(POLICY + '.Enforcer.__init__')
    W = lambda n: ctx.where(init.module, n)
    from ..dte import inline_helpers
    ti = Table(prog, init, inline=inline_helpers(
        prog, modules={POLICY}, exclude={POLICY + '.Enforcer.load_rules',
                                         POLICY + '.Enforcer.set_rules'}),
        handler_paths=False)
    nst = 0
    bad = None
    opt_tail = '.oslo_policy.policy_default_rule'
    for p in ti.paths:
        st = [e for e in p.events if e.kind == 'store'
              and U(e.node) == 'self.default_rule']
        if not st:
            if p.outcome.kind != 'raise':
                bad = bad or (p, None, 'a path of the constructor leaves '
                              'the default rule unset')
            continue
        e = st[-1]
        nst += 1
        v = ti.expand(e.value)
        given = [c.pol for c in p.conds if c.kind == 'test' and U(c.expr) in (
            'default_rule',)]
        notnone = [not c.pol for c in p.conds if c.kind == 'test' and U(
            c.expr) == 'default_rule is None']
        given = given + notnone
        if isinstance(v, ast.BoolOp) and isinstance(v.op, ast.Or) and len(
                v.values) == 2 and isinstance(v.values[1], ast.Call) and \
                not v.values[1].args and not v.values[1].keywords:
            # the option read through a one-line accessor of the enforcer
            g = prog.callee_of(init, v.values[1])
            body = [b for b in g.node.body if not (
                isinstance(b, ast.Expr) and isinstance(
                    b.value, ast.Constant))] if g is not None else []
            if len(body) == 1 and isinstance(body[0], ast.Return) and \
                    body[0].value is not None:
                v = ast.BoolOp(op=ast.Or(), values=[v.values[0],
                                                    body[0].value])
        if isinstance(v, ast.BoolOp) and isinstance(v.op, ast.Or) and len(
                v.values) == 2 and U(v.values[0]) == 'default_rule' and U(
                    v.values[1]).endswith(opt_tail):
            continue
        if given and given[-1] and U(v) == 'default_rule':
            continue
        if given and not given[-1] and U(v).endswith(opt_tail):
            continue
        opaque = [n for c in p.conds if isinstance(c.expr, ast.AST)
                  for n in ast.walk(c.expr)
                  if isinstance(n, ast.Call) and isinstance(
                      n.func, ast.Name) and n.func.id.startswith('SYM_f')]
        if opaque or (isinstance(v, ast.Name) and v.id.startswith('SYM_e')):
            raise AnalysisError(
                'the constructor picks the default rule through a local '
                'function object / a loop over computed candidates (line '
                '%d): which source wins is not read' % e.line)
        bad = bad or (p, e, 'self.default_rule = %s on path %s' % (
            U(v)[:60], p.cond_text()[-120:]))
    ok = bad is None and nst > 0
    ctx.ob('C03.DEFAULT-SRC', ok, '%s:%d' % (
        ctx.where(init.module, init.node).split(':')[0], bad[1].line)
        if bad and bad[1] is not None else W(init.node), init.qual,
        'self.default_rule (%d paths)' % nst,
        'default rule = constructor argument, else option '
        'policy_default_rule' if ok else
        'the enforcer\'s default rule is not `constructor argument or '
        'option policy_default_rule` (%s)' % (
            bad[2] if bad else 'never stored'))
    # every Rules store built inside Enforcer carries self.default_rule
    enf_cls = prog.cls(POLICY + '.Enforcer')
    nsites = 0
    for f in enf_cls.methods.values():
        for c in walk_no_nested(f.node):
            if not isinstance(c, ast.Call):
                continue
            r = prog.resolve(f.module, c.func)
            if r == RULES:
                dr = kwarg(c, 'default_rule', 1)
            elif r in (RULES + '.load', RULES + '.from_dict',
                       RULES + '.load_json'):
                dr = kwarg(c, 'default_rule', 1)
            else:
                continue
            nsites += 1
            ok = dr is not None and U(dr) == 'self.default_rule'
            ctx.ob('C03.DEFAULT-SRC', ok, ctx.where(f.module, c), f.qual,
                   U(c), 'the rule store is built with the enforcer\'s '
                   'default rule' if ok else
                   'a rule store is built without the enforcer\'s default '
                   'rule: unknown names would not fall back to it')
    ctx.floor('C03.DEFAULT-SRC', nsites, 1, 'Rules construction sites')
    # ... and the store the enforcer decides on is always one of those:
    # every rebind of self.rules installs a store built with the enforcer's
    # default rule (adopting a caller's Rules object would carry *its*
    # default rule, or none)
    from ..dte import inline_helpers as _ih
    nre = 0
    for f in sorted(enf_cls.methods.values(), key=lambda x: x.qual):
        if not any(isinstance(n, (ast.Assign, ast.AnnAssign)) and any(
                self_attr(t) == 'rules' for t in (
                    n.targets if isinstance(n, ast.Assign) else [n.target]))
                for n in walk_no_nested(f.node)):
            continue
        if f.name == 'load_rules':
            from ..load_model import load_table
            tf = load_table(ctx)
        else:
            tf = Table(prog, f, handler_paths=False)
        seen = set()
        for p in tf.paths:
            for e in p.events:
                if e.kind != 'store' or U(e.node) != 'self.rules':
                    continue
                v = tf.expand(e.value)

                def builds(v, frame_fn, depth=2):
                    r = prog.resolve(frame_fn.module, v.func) \
                        if isinstance(v, ast.Call) else None
                    if r in (RULES, RULES + '.load', RULES + '.from_dict',
                             RULES + '.load_json'):
                        dr = kwarg(v, 'default_rule', 1)
                        return dr is not None and U(dr) == \
                            'self.default_rule'
                    g = prog.callee_of(frame_fn, v) if isinstance(
                        v, ast.Call) else None
                    if g is not None and depth and g.cls is enf_cls:
                        # a factory method: all it returns are such stores
                        tg = Table(prog, g, handler_paths=False)
                        rets = [q for q in tg.paths
                                if q.outcome.kind == 'return']
                        return bool(rets) and all(
                            q.outcome.expr is not None and builds(
                                tg.expand(q.outcome.expr), g, depth - 1)
                            for q in rets)
                    return False
                ok = builds(v, prog.functions.get(e.frame, f))
                k = (e.line, ok)
                if k in seen:
                    continue
                seen.add(k)
                nre += 1
                ctx.ob('C03.DEFAULT-SRC', ok, '%s:%d' % (ctx.where(
                    f.module, f.node).split(':')[0], e.line), f.qual,
                    e.text()[:90],
                    'the store installed is built with the enforcer\'s '
                    'default rule' if ok else
                    'self.rules is rebound to something that is not a Rules '
                    'store built with self.default_rule: the store can carry '
                    'another default rule (or none), so unknown names no '
                    'longer fall back to the configured default')
    ctx.floor('C03.DEFAULT-SRC', nre, 1, 'rebinds of the rule store')
    # Rules.__init__ keeps it; load/from_dict forward it
    rinit = prog.func(RULES + '.__init__')
    tr = Table(prog, rinit)
    keeps = bool(tr.paths)
    for p in tr.paths:
        st = [e for e in p.events if e.kind == 'store'
              and U(e.node) == 'self.default_rule']
        if len(st) != 1 or U(tr.expand(st[0].value)) != 'default_rule':
            keeps = False
    ctx.ob('C03.DEFAULT-SRC', keeps, ctx.where(rinit.module, rinit.node),
           rinit.qual, 'Rules.__init__', 'stores the default rule it is '
           'given, on every path' if keeps else
           'Rules.__init__ does not store exactly its default_rule argument '
           'on every path: a store can end up with a default rule the '
           'enforcer never configured')
    for name in ('load', 'from_dict'):
        f = prog.func(RULES + '.' + name)
        tf = Table(prog, f, inline=inline_helpers(
            prog, modules={POLICY},
            exclude={POLICY + '.parse_file_contents'}), handler_paths=False,
            max_depth=4)
        fw = None
        for p in tf.paths:
            if p.outcome.kind != 'return' or p.outcome.expr is None:
                continue
            e = tf.expand(p.outcome.expr)
            good = False
            if isinstance(e, ast.Call) and (U(e.func) == 'cls' or prog.resolve(
                    f.module, e.func) == RULES):
                dr = kwarg(e, 'default_rule', 1)
                good = dr is not None and U(dr) == 'default_rule'
            fw = good if fw is None else (fw and good)
        fw = bool(fw)
        ctx.ob('C03.DEFAULT-SRC', fw, ctx.where(f.module, f.node), f.qual,
               'Rules.%s' % name, 'forwards default_rule to the store'
               if fw else 'Rules.%s drops its default_rule argument' % name)
    opt = prog.options().get('policy_default_rule')
    ok = opt is not None and is_const(opt['default'], 'default') and \
        opt['type'] == 'ext:oslo_config.cfg.StrOpt'
    ctx.ob('C03.DEFAULT-SRC', ok, ctx.where(
        prog.module(PKG + '.opts'), opt['node'] if opt else None),
        PKG + '.opts._options', 'option policy_default_rule',
        "string option defaulting to 'default'" if ok else
        "option policy_default_rule is not a string defaulting to 'default'")


def check(ctx):
    ctx.use(POLICY, CHECKS, PKG + '.opts')
    ctx.explain(
        'C03: the branch structure of Rules.__missing__ is extracted and '
        'evaluated for each kind of default rule the property quantifies '
        'over; lookups on evaluation paths must catch its exception and '
        'deny; enforce\'s empty-store and lookup-failure branches are '
        'enumerated; provenance of the default rule is checked at every '
        'store construction.')
    ctx.assume('default rules of other types (dict, int) are outside the '
               'property\'s quantifier')
    check_missing(ctx)
    check_no_override(ctx)
    check_raise_catch(ctx)
    check_fail_closed(ctx)
    check_deny_reasons(ctx)
    check_default_src(ctx)
    # a name that has a registered default is decided by that default, not
    # by the default rule: the merge of registered defaults runs on every
    # load (= C10.DEFAULTS)
    from . import c10
    ctx.borrow('C03.DEFINED', c10.check_reapply_and_reset,
               only=('C10.DEFAULTS',))

"""C07 - enforce either returns the decision or raises the requested
exception."""
import ast

from .. import PKG
from ..absval import AV
from ..dte import Table
from ..enforce_model import enforce_table, path_features
from ..model import AnalysisError
from ..util import (U, is_const, method_call, parent_map, walk_no_nested,
                    handler_names)

POLICY = PKG + '.policy'
CHECKS = PKG + '._checks'

TRUTHY = AV('do_raise on', True, types=('bool',), eq={True: True,
                                                      False: False})
FALSY = AV('do_raise off', False, types=('bool',), eq={True: False,
                                                       False: True})


def _raise_class(t, p):
    return t.raised_class(p)


def check_exit(ctx):
    prog = ctx.prog
    t = enforce_table(ctx)
    enf = t.enf
    F = ctx.where(enf.module, enf.node).split(':')[0]
    ctx.count(len(t.paths))
    # ---- do_raise on: no falsy return
    feas = t.feasible({'do_raise': TRUTHY})
    n_ret = 0
    seen = set()
    for p, unk in feas:
        if p.outcome.kind != 'return':
            continue
        n_ret += 1
        e = p.outcome.expr
        ok = True
        why = ''
        if e is None:
            ok, why = False, 'returns None'
        elif is_const(e):
            ok = bool(e.value)
            why = 'returns the constant %r' % (e.value,)
        else:
            # a symbolic result must be known truthy on this path
            truthy = any(c.kind == 'test' and c.pol and U(c.expr) == U(e)
                         for c in p.conds)
            ok = truthy
            why = 'returns %s whose truthiness was not tested against the ' \
                  'raise gate' % U(t.expand(e))
        key = (p.outcome.line, ok, why)
        if key in seen:
            continue
        seen.add(key)
        ctx.ob('C07.EXIT', ok, '%s:%d' % (F, p.outcome.line),
               p.outcome.frame or enf.qual,
               'do_raise on: ' + p.outcome.text(),
               'every return under do_raise is a truthy decision' if ok else
               'with do_raise on, enforce %s instead of raising (path: %s)'
               % (why, p.cond_text()[-400:]),
               witness=None if ok else {'path': p.cond_text()})
    ctx.floor('C07.EXIT', n_ret, 1, 'returns with do_raise on')
    # ---- do_raise off: nothing raises after evaluation started
    feas = t.feasible({'do_raise': FALSY})
    seen = set()
    n_raise = 0
    for p, unk in feas:
        if p.outcome.kind != 'raise':
            continue
        n_raise += 1
        cls = _raise_class(t, p)
        ok = cls == POLICY + '.InvalidContextObject'
        key = (p.outcome.line, cls)
        if key in seen:
            continue
        seen.add(key)
        ctx.ob('C07.EXIT', ok, '%s:%d' % (F, p.outcome.line),
               p.outcome.frame or enf.qual,
               'do_raise off: ' + p.outcome.text(),
               'only the credentials type gate raises without do_raise'
               if ok else 'with do_raise off, enforce raises %s instead of '
               'returning a falsy decision (path: %s)' % (
                   cls, p.cond_text()[-400:]))
    # ---- the falsy return without do_raise is False / the check result
    seen = set()
    for p, unk in feas:
        if p.outcome.kind == 'end' or (p.outcome.kind == 'return'
                                       and p.outcome.expr is None):
            key = ('none', p.outcome.line)
            if key in seen:
                continue
            seen.add(key)
            ctx.ob('C07.EXIT', False, '%s:%d' % (F, p.outcome.line),
                   enf.qual, 'returns None',
                   'enforce can return None (path: %s)' % p.cond_text())


def check_raise_args(ctx):
    prog = ctx.prog
    t = enforce_table(ctx)
    enf = t.enf
    F = ctx.where(enf.module, enf.node).split(':')[0]
    a = enf.node.args
    va = a.vararg.arg if a.vararg else None
    kw = a.kwarg.arg if a.kwarg else None
    seen = set()
    n = 0
    allowed = {POLICY + '.InvalidContextObject', POLICY + '.InvalidScope',
               POLICY + '.PolicyNotAuthorized'}
    for p in t.paths:
        if p.outcome.kind != 'raise':
            continue
        e = t.expand(p.outcome.expr) if p.outcome.expr is not None else None
        cls = _raise_class(t, p)
        key = (p.outcome.line, U(e) if e is not None else None)
        if key in seen:
            continue
        seen.add(key)
        gate_region = t.__dict__.get('_gate_region')
        if gate_region is None:
            gate_region = set(prog.region(t.gate, stop=(
                enf.qual, POLICY + '.Enforcer.load_rules')))
            t._gate_region = gate_region
        in_gate = p.outcome.frame in gate_region
        if isinstance(e, ast.Call) and U(e.func) == 'exc':
            n += 1
            # caller's class with caller's extra arguments, when exc truthy
            shape = len(e.args) == 1 and isinstance(e.args[0], ast.Starred) \
                and U(e.args[0].value) == va and len(e.keywords) == 1 and \
                e.keywords[0].arg is None and U(e.keywords[0].value) == kw
            cond = any(c.kind == 'test' and c.pol and U(c.expr) == 'exc'
                       for c in p.conds)
            gate = any(c.kind == 'test' and U(c.expr) == 'do_raise'
                       and c.pol for c in p.conds)
            ok = shape and cond and gate
            ctx.ob('C07.RAISE-ARGS', ok, '%s:%d' % (F, p.outcome.line),
                   enf.qual, p.outcome.text(),
                   'raises the caller\'s class built from the caller\'s '
                   'extra positional and keyword arguments' if ok else
                   'the caller\'s exception is not built as exc(*args, '
                   '**kwargs) under `do_raise and exc`')
        elif cls == POLICY + '.PolicyNotAuthorized':
            n += 1
            args = [U(x) for x in e.args] if isinstance(e, ast.Call) else []
            cond = any(c.kind == 'test' and not c.pol and U(c.expr) == 'exc'
                       for c in p.conds)
            gate = any(c.kind == 'test' and U(c.expr) == 'do_raise'
                       and c.pol for c in p.conds)
            # exactly (rule, target, creds): the caller's extra keyword
            # arguments belong to the caller's own class only
            plain = isinstance(e, ast.Call) and not e.keywords and not any(
                isinstance(x, ast.Starred) for x in e.args)
            ok = args[:1] == ['rule'] and len(args) == 3 and cond and gate \
                and plain
            ctx.ob('C07.RAISE-ARGS', ok, '%s:%d' % (F, p.outcome.line),
                   enf.qual, p.outcome.text(),
                   'without a class, PolicyNotAuthorized names the policy'
                   if ok else 'the default exception is not '
                   'PolicyNotAuthorized(rule, target, creds) under '
                   '`do_raise and not exc`')
        elif cls == POLICY + '.InvalidScope':
            ok = in_gate
            ctx.ob('C07.SURFACE', ok, '%s:%d' % (F, p.outcome.line),
                   p.outcome.frame, p.outcome.text(),
                   'InvalidScope is raised by the scope gate only' if ok
                   else 'InvalidScope raised outside the scope gate')
        elif cls == POLICY + '.InvalidContextObject':
            # before evaluation: no _check / gate event precedes
            ft = path_features(t, p)
            ok = not ft['check'] and not ft['gate']
            ctx.ob('C07.SURFACE', ok, '%s:%d' % (F, p.outcome.line),
                   enf.qual, p.outcome.text(),
                   'the credentials type gate fires before any evaluation'
                   if ok else 'InvalidContextObject raised after evaluation '
                   'started')
        else:
            ctx.ob('C07.SURFACE', False, '%s:%d' % (F, p.outcome.line),
                   p.outcome.frame or enf.qual, p.outcome.text(),
                   'enforce raises %s, which is not one of its documented '
                   'exceptions' % cls)
    ctx.floor('C07.RAISE-ARGS', n, 2, 'gate raises')
    # the caller's class is only ever called on the way to raising it: an
    # allowed request, or one with do_raise off, must not depend on whether
    # exc(*args, **kwargs) can be built
    eager = None
    for p in t.paths:
        if p.outcome.kind == 'raise':
            continue
        for e in p.events:
            if e.kind == 'call' and isinstance(e.node, ast.Call) and U(
                    t.expand(e.node.func)) == 'exc' and e.frame in (
                        None, enf.qual):
                eager = eager or (p, e)
    ctx.ob('C07.RAISE-ARGS', eager is None,
           '%s:%d' % (F, eager[1].line) if eager else ctx.where(
               enf.module, enf.node), enf.qual,
           'construction of the caller\'s exception',
           'only on the paths that raise it' if eager is None else
           'exc(*args, **kwargs) is built on a path that does not raise '
           '(%s): an allowed request, or a call with do_raise off, fails '
           'with TypeError when the class needs arguments the caller did '
           'not pass' % eager[0].cond_text()[-160:])
    # the gate condition itself: raise iff do_raise and not result
    bad = None
    for p in t.paths:
        if p.outcome.kind == 'raise' and p.outcome.frame == enf.qual and \
                _raise_class(t, p) != POLICY + '.InvalidContextObject':
            # on this path the result must be falsy (constant False or a
            # symbol tested falsy)
            falsy = False
            for c in p.conds:
                if c.kind == 'test' and not c.pol and isinstance(
                        c.expr, ast.Name) and c.expr.id.startswith('SYM_'):
                    d = t.en.defs.get(c.expr.id)
                    if isinstance(d, ast.Call):
                        falsy = True
            ft = path_features(t, p)
            real_checks = [x for x in ft['check'] if x[1].kind == 'call']
            if not real_checks:
                falsy = True       # result = False constant branches
            if not falsy:
                bad = p
    ctx.ob('C07.EXIT', bad is None, ctx.where(enf.module, enf.node),
           enf.qual, 'raise gate polarity',
           'the gate raises only for a falsy decision' if bad is None else
           'the do_raise gate raises although the decision was not falsy '
           '(path: %s)' % bad.cond_text()[-300:])


def _broad_quiet(prog, module, tnode):
    broad = reraises = False
    for h in tnode.handlers:
        names = handler_names(prog, module, h)
        if any(x in ('builtin:Exception', 'builtin:BaseException')
               for x in names):
            broad = True
        if any(isinstance(x, ast.Raise) for x in ast.walk(h)):
            reraises = True
    return broad and not reraises


def _debug_scan(ctx, prog, fn, stmts, report, depth=0, seen=None):
    """Obligations on a debug-only block: each try swallows everything,
    every call outside such a try is the logger, a harmless builtin, or a
    package helper that obeys the same rule."""
    seen = seen if seen is not None else {}
    holder = ast.Module(body=list(stmts), type_ignores=[])
    pm = parent_map(holder)
    ntry = 0
    for tnode in [n for n in walk_no_nested(holder)
                  if isinstance(n, ast.Try)]:
        ntry += 1
        ok = _broad_quiet(prog, fn.module, tnode)
        report('try', ok, tnode, fn,
               'debug dump try@%d handlers %s' % (tnode.lineno, [
                   U(h.type) if h.type is not None else 'bare'
                   for h in tnode.handlers]),
               'formatting failures of the debug dump are swallowed' if ok
               else 'the debug dump can raise out of enforce: its handler '
               'does not catch Exception (or re-raises)')
    for r in [n for n in walk_no_nested(holder) if isinstance(n, ast.Raise)]:
        cur, inside = r, False
        while cur in pm:
            par = pm[cur]
            if isinstance(par, ast.Try) and any(cur is b for b in par.body) \
                    and _broad_quiet(prog, fn.module, par):
                inside = True
            cur = par
        if not inside:
            report('call', False, r, fn, 'raise in the debug dump',
                   'the debug-only code raises: switching debug logging on '
                   'can make enforce raise')
    for c in walk_no_nested(holder):
        if not isinstance(c, ast.Call):
            continue
        inside = False
        cur = c
        while cur in pm:
            par = pm[cur]
            if isinstance(par, ast.Try) and any(cur is b for b in par.body) \
                    and _broad_quiet(prog, fn.module, par):
                inside = True
            if isinstance(par, ast.ExceptHandler):
                inside = True
            cur = par
        if inside:
            continue
        r = prog.resolve(fn.module, c.func) or ''
        recv = method_call(c)
        safe = (recv is not None and U(recv[0]) == 'LOG') or r in (
            'builtin:isinstance', 'builtin:str', 'builtin:type')
        if not safe and recv is not None and recv[1] in ('append', 'add') \
                and isinstance(recv[0], ast.Name) and len(c.args) == 1 \
                and isinstance(c.args[0], (ast.Name, ast.Constant)):
            # collecting into a list / set built right here cannot fail
            binds = [n.value for n in ast.walk(fn.node)
                     if isinstance(n, ast.Assign) and any(
                         isinstance(t, ast.Name) and t.id == recv[0].id
                         for t in n.targets)]
            safe = bool(binds) and all(
                isinstance(b, (ast.List, ast.Set)) or (
                    isinstance(b, ast.Call) and isinstance(b.func, ast.Name)
                    and b.func.id in ('list', 'set') and not b.args)
                for b in binds)
        if not safe:
            g = None
            try:
                g = prog.callee_of(fn, c)
            except Exception:
                g = None
            if g is None and isinstance(c.func, ast.Name):
                # a function defined right there, in the analysed function
                nested = [d for d in ast.walk(fn.node) if isinstance(
                    d, ast.FunctionDef) and d.name == c.func.id
                    and d is not fn.node]
                if len(nested) == 1:
                    from ..model import FunctionInfo
                    g = FunctionInfo(fn.module, nested[0])
                    g.qual = '%s.<locals>.%s' % (fn.qual, nested[0].name)
            if g is not None and g.qual in seen:
                if seen[g.qual]:
                    continue
            elif g is not None and depth < 3:
                seen[g.qual] = True       # recursion: optimistic
                sub = []
                n2 = _debug_scan(
                    ctx, prog, g, g.node.body,
                    lambda *a: sub.append(a), depth + 1, seen)
                ntry += n2
                for a in sub:
                    report(*a)
                safe = all(a[1] for a in sub)
                seen[g.qual] = safe
                # the helper must not touch what it is given
                for n in walk_no_nested(g.node):
                    bad = None
                    if isinstance(n, ast.Call):
                        mc = method_call(n)
                        if mc and isinstance(mc[0], ast.Name) and \
                                mc[0].id in g.params and mc[1] in (
                                    'pop', 'update', 'clear', 'setdefault',
                                    'popitem', '__setitem__', '__delitem__',
                                    'append', 'extend', 'remove'):
                            bad = n
                    if isinstance(n, (ast.Assign, ast.AugAssign,
                                      ast.Delete)):
                        ts = n.targets if not isinstance(
                            n, ast.AugAssign) else [n.target]
                        for tg in ts:
                            if isinstance(tg, (ast.Subscript,
                                               ast.Attribute)) and \
                                    isinstance(tg.value, ast.Name) and \
                                    tg.value.id in g.params:
                                bad = n
                    if bad is not None:
                        report('mut', False, bad, g, 'debug helper effects',
                               'the debug-only helper modifies the inputs '
                               'of the decision: %s' % U(bad)[:60])
                if safe:
                    continue
                continue
        report('call', safe, c, fn, 'unguarded call ' + U(c)[:80],
               'only the logger is called outside the guarded dumps'
               if safe else 'a call in the debug-only branch is not guarded: '
               'switching debug logging on can make enforce raise')
    return ntry


def check_debug(ctx):
    prog = ctx.prog
    enf0 = prog.func(POLICY + '.Enforcer.enforce')
    # the debug-only branch may sit in enforce or in a helper it calls
    cands = [enf0] + [g for q, g in sorted(prog.region(
        enf0, stop=(POLICY + '.Enforcer.load_rules',)).items())
        if g.cls is enf0.cls and g is not enf0]
    enf, dbg = enf0, None
    for g in cands:
        body = list(g.node.body)
        for i, n in enumerate(body):
            # guard-clause spelling: `if not LOG.isEnabledFor(..): return`
            # makes the rest of the function the debug-only block
            if isinstance(n, ast.If) and not n.orelse and len(
                    n.body) == 1 and isinstance(n.body[0], ast.Return) and \
                    isinstance(n.test, ast.UnaryOp) and isinstance(
                        n.test.op, ast.Not) and any(
                            isinstance(c, ast.Call) and method_call(
                                c, 'isEnabledFor')
                            for c in ast.walk(n.test)) and dbg is None \
                    and g is not enf0:
                fake = ast.If(test=n.test.operand, body=body[i + 1:],
                              orelse=[])
                ast.copy_location(fake, n)
                fake.end_lineno = g.node.end_lineno
                enf, dbg = g, fake
        for n in walk_no_nested(g.node):
            if isinstance(n, ast.If) and any(
                    isinstance(c, ast.Call) and method_call(c,
                                                            'isEnabledFor')
                    for c in ast.walk(n.test)) and dbg is None:
                enf, dbg = g, n
    if dbg is None:
        ctx.ob('C07.DEBUG', True, ctx.where(enf.module, enf.node), enf.qual,
               'no debug dump', 'enforce has no debug-only branch',
               nontrivial=False)
        return

    def report(kind, ok, node, fn, construct, detail):
        ctx.ob('C07.DEBUG', ok, ctx.where(fn.module, node), fn.qual,
               construct, detail)
    ntry = _debug_scan(ctx, prog, enf, dbg.body, report)
    # names defined in the branch are not used after it
    defined = {n.id for n in ast.walk(dbg) if isinstance(n, ast.Name)
               and isinstance(n.ctx, ast.Store)}
    defined |= {h.name for n in ast.walk(dbg) if isinstance(n, ast.Try)
                for h in n.handlers if h.name}
    later = [n for n in walk_no_nested(enf.node) if isinstance(n, ast.Name)
             and isinstance(n.ctx, ast.Load) and n.id in defined
             and n.lineno > dbg.end_lineno]
    ctx.ob('C07.DEBUG', not later, ctx.where(enf.module, later[0]
                                             if later else dbg), enf.qual,
           'names defined by the debug branch: %s' % sorted(defined),
           'nothing computed for the debug dump is used by the decision'
           if not later else 'the decision uses %s, which only exists when '
           'debug logging is on' % sorted({n.id for n in later}))
    # no mutation of creds/target in the branch
    prm = enf.params
    muts = []
    for n in ast.walk(dbg):
        if isinstance(n, ast.Call):
            mc = method_call(n)
            if mc and U(mc[0]) in prm[1:] and mc[1] in (
                    'pop', 'update', 'clear', 'setdefault', 'popitem',
                    '__setitem__', '__delitem__'):
                muts.append(n)
        if isinstance(n, (ast.Assign, ast.AugAssign, ast.Delete)):
            ts = n.targets if not isinstance(n, ast.AugAssign) else [
                n.target]
            for tg in ts:
                if isinstance(tg, ast.Subscript) and U(tg.value) in prm[1:]:
                    muts.append(n)
                if isinstance(tg, ast.Name) and tg.id in prm:
                    muts.append(n)
    ctx.ob('C07.DEBUG', not muts, ctx.where(enf.module, muts[0]
                                            if muts else dbg), enf.qual,
           'debug branch effects',
           'the debug dump does not modify credentials, target or rule'
           if not muts else 'the debug-only branch modifies the inputs of '
           'the decision: %s' % U(muts[0]))
    ctx.floor('C07.DEBUG', ntry, 1, 'guarded dumps')


def check_authorize(ctx):
    prog = ctx.prog
    auth = prog.func(POLICY + '.Enforcer.authorize')
    enf = prog.func(POLICY + '.Enforcer.enforce')
    W = ctx.where(auth.module, auth.node)
    sa = ast.dump(auth.node.args)
    se = ast.dump(enf.node.args)
    ctx.ob('C07.AUTHORIZE', sa == se, W, auth.qual,
           'signature (%s)' % U(auth.node.args),
           'authorize has the parameters and defaults of enforce'
           if sa == se else 'authorize\'s signature (%s) differs from '
           'enforce\'s (%s)' % (U(auth.node.args), U(enf.node.args)))
    from ..dte import inline_helpers
    t = Table(prog, auth, inline=inline_helpers(
        prog, modules={POLICY}, exclude={enf.qual,
                                         POLICY + '.Enforcer.load_rules'}),
        max_depth=4)
    n_reg = n_fw = 0
    for p in t.paths:
        from ..idioms import as_membership
        reg = []
        for c in p.conds:
            if c.kind != 'test':
                continue
            m = as_membership(prog, t.expand, c.expr, c.pol)
            if m and m[0] == auth.params[1] and \
                    m[1] == 'self.registered_rules':
                reg.append((c, m[2]))
        if not reg:
            from ..idioms import lookup_tries
            for tr, key, coll in lookup_tries(prog, auth):
                if key == auth.params[1] and coll == 'self.registered_rules':
                    tag = 'try@%d' % tr.lineno
                    hit = [c for c in p.conds if c.kind == 'exc'
                           and 'KeyError' in str(getattr(c.expr, 'value', ''))
                           and tag in str(getattr(c.expr, 'value', ''))]
                    reg.append((hit[0] if hit else None, not hit))
                    break
        if not reg:
            ctx.ob('C07.AUTHORIZE', False, W, auth.qual, p.cond_text(),
                   'a path of authorize does not test registration of the '
                   'policy name')
            continue
        registered = reg[0][1]
        reg = [reg[0][0]]
        if not registered:
            n_reg += 1
            cls = t.raised_class(p)
            calls = [e for e in p.events if e.kind == 'call'
                     and e.nconds <= p.conds.index(reg[0]) + 1]
            evaluated = [e for e in p.events if e.kind == 'call' and
                         prog.callee_of(auth, e.node) is not None and
                         prog.callee_of(auth, e.node).qual.endswith(
                             ('.enforce', '.load_rules'))]
            ok = p.outcome.kind == 'raise' and \
                cls == POLICY + '.PolicyNotRegistered' and not evaluated
            ctx.ob('C07.AUTHORIZE', ok, W, auth.qual,
                   'unregistered -> ' + p.outcome.text(),
                   'an unregistered name raises PolicyNotRegistered, '
                   'evaluating nothing' if ok else
                   'an unregistered policy name does not raise '
                   'PolicyNotRegistered before anything is evaluated')
        else:
            n_fw += 1
            e = t.expand(p.outcome.expr) if p.outcome.kind == 'return' and \
                p.outcome.expr is not None else None
            ok = False
            if isinstance(e, ast.Call) and prog.callee_of(auth, e) is enf:
                # *PACK where PACK is a tuple / list written out earlier:
                # its elements in place
                flat = []
                for a in e.args:
                    inner = t.expand(a.value) if isinstance(
                        a, ast.Starred) else None
                    if isinstance(inner, ast.Name) and isinstance(
                            t.en.defs.get(inner.id), (ast.Tuple, ast.List)):
                        inner = t.en.defs[inner.id]
                    if isinstance(inner, (ast.Tuple, ast.List)):
                        flat.extend(inner.elts)
                    else:
                        flat.append(a)
                pos = [U(a) for a in flat]
                kws = {k.arg: U(k.value) for k in e.keywords}
                names = auth.params[1:]
                va = auth.node.args.vararg.arg if auth.node.args.vararg \
                    else None
                kwn = auth.node.args.kwarg.arg if auth.node.args.kwarg \
                    else None
                want = names + (['*' + va] if va else [])
                bound = {}
                for nme, v in zip(enf.params[1:], pos):
                    bound[nme] = v
                for k, v in kws.items():
                    if k is not None:
                        bound[k] = v
                ok = all(bound.get(nme) == nme for nme in names) and (
                    not va or '*' + va in pos) and (
                    not kwn or kws.get(None) == kwn)
                # extra positionals must come after every named parameter,
                # else a keyword-forwarded flag collides with them
                if ok and va and pos.index('*' + va) < len(names):
                    ok = False
            ctx.ob('C07.AUTHORIZE', ok, W, auth.qual,
                   'registered -> ' + p.outcome.text(),
                   'forwards every argument to enforce in the same role'
                   if ok else 'authorize does not forward all its arguments '
                   'to enforce unchanged and in enforce\'s positional order '
                   '(extra positional arguments for the exception class '
                   'must follow do_raise and exc)')
    ctx.floor('C07.AUTHORIZE', n_reg, 1, 'unregistered paths')
    ctx.floor('C07.AUTHORIZE', n_fw, 1, 'forwarding paths')


def check(ctx):
    ctx.use(POLICY, CHECKS)
    ctx.explain('C07: every exit of Enforcer.enforce (scope gate inlined) is '
                'enumerated and evaluated with do_raise abstractly on / off; '
                'gate raises, the exception surface, the debug-only branch '
                'and authorize are checked structurally.')
    ctx.assume('exceptions from custom checks and from load_rules '
               '(configuration errors) are outside this rule')
    check_exit(ctx)
    check_raise_args(ctx)
    check_kwargs_forwarding(ctx)
    check_gate_message(ctx)
    check_debug(ctx)
    check_authorize(ctx)
    check_stateless(ctx, 'C07.STATELESS')
    # credentials that are neither a context nor a mutable mapping raise the
    # documented InvalidContextObject before anything is written to them:
    # otherwise the system_scope mirror fails with TypeError in every
    # do_raise / exc mode (= C08.CREDS)
    from . import c08
    ctx.borrow('C07.SURFACE', c08.check_creds, only=['C08.CREDS'])

    def _gate(c):
        c08.check_gate(c, c08.check_table(c))
    # the scope gate's verdict reaches the exit in both modes (C08.GATE)
    ctx.borrow_soft('C07.EXIT', _gate, only=['C08.GATE'])


def check_gate_message(ctx):
    """The credentials handed to enforce() are whatever the caller has: the
    type gate exists to refuse them with InvalidContextObject.  A message
    built as `'... %s ...' % creds` hands the object to `%` as its argument
    list when it is a tuple (TypeError: not all arguments converted / not
    enough arguments) - the documented exception is never reached."""
    prog = ctx.prog
    enf = prog.func(POLICY + '.Enforcer.enforce')
    creds_p = enf.params[3]
    n = 0
    for b in ast.walk(enf.node):
        if not (isinstance(b, ast.BinOp) and isinstance(b.op, ast.Mod)):
            continue
        left = b.left
        if isinstance(left, ast.Call) and left.args:
            left = left.args[0]                     # _('...') % x
        if not (isinstance(left, ast.Constant) and isinstance(
                left.value, str)):
            continue
        n += 1
        bare = isinstance(b.right, ast.Name) and b.right.id == creds_p
        if bare:
            # only where the object has not passed the gate: in the branch
            # that refuses it (an `else` of the isinstance tests)
            from ..util import parent_map
            pm = parent_map(enf.node)
            cur, anc, refused = b, pm.get(b), False
            while anc is not None:
                if isinstance(anc, ast.If) and any(
                        cur is x for x in anc.orelse) and \
                        'isinstance(%s' % creds_p in U(anc.test):
                    refused = True
                cur, anc = anc, pm.get(anc)
            bare = refused
        ctx.ob('C07.SURFACE', not bare, ctx.where(enf.module, b), enf.qual,
               'message %s' % U(b)[:70],
               'the message arguments are given as a tuple / mapping '
               'written out' if not bare else
               'the credentials object is the bare right operand of `%%`: '
               'credentials that are a tuple (a namedtuple token, `()`) are '
               'unpacked as the argument list and the formatting raises '
               'TypeError before %s can be raised'
               % 'InvalidContextObject')
    return n


def check_kwargs_forwarding(ctx):
    """The caller's extra keyword arguments belong to the caller's exception
    class.  Re-splatted into a helper of the library that has named
    parameters of its own they collide with those names (`name=...` given
    by the caller against a helper parameter `name`): TypeError instead of
    the requested exception."""
    prog = ctx.prog
    enf = prog.func(POLICY + '.Enforcer.enforce')
    kw = enf.node.args.kwarg.arg if enf.node.args.kwarg else None
    if kw is None:
        return
    n = 0
    for q, f in sorted(prog.region(enf, stop=(
            POLICY + '.Enforcer.load_rules',)).items()):
        if f is not enf and not (f.node.args.kwarg is not None):
            continue
        own = f.node.args.kwarg.arg if f.node.args.kwarg else None
        for c in walk_no_nested(f.node):
            if not isinstance(c, ast.Call):
                continue
            stars = [k for k in c.keywords if k.arg is None and isinstance(
                k.value, ast.Name) and k.value.id == (kw if f is enf
                                                      else own)]
            if not stars:
                continue
            g = prog.callee_of(f, c)
            if g is None:
                continue            # the caller's class, a builtin ...
            n += 1
            a = g.node.args
            # (a keyword spelled like a parameter of enforce itself never
            # reaches **kwargs: it is bound by enforce)
            named = [x.arg for x in a.args + a.kwonlyargs
                     if x.arg not in ('self', 'cls')
                     and x.arg not in enf.params]
            ok = not named
            ctx.ob('C07.RAISE-ARGS', ok, ctx.where(f.module, c), f.qual,
                   U(c)[:80],
                   'forwards the caller\'s keyword arguments to a function '
                   'without named parameters' if ok else
                   'the caller\'s **%s are passed on to %s, whose own '
                   'parameters (%s) a caller keyword of the same name '
                   'collides with: TypeError instead of the requested '
                   'exception' % (stars[0].value.id, g.name,
                                  ', '.join(named)))
    ctx.extra['kwargs_forwardings'] = n


def check_stateless(ctx, rule):
    """What enforce returns or raises depends on this call's arguments and
    the rule store only: the decision side keeps nothing between calls and
    leaves what it is given as it found it."""
    from ..enforce_model import decision_side_effects, decision_region
    prog = ctx.prog
    effs = decision_side_effects(prog)
    for f, e, why in effs:
        ctx.ob(rule, False, ctx.where(f.module, e.node), f.qual,
               U(e.node)[:80],
               'the decision side %s: a later call (or the same request '
               'object seen again) can be decided on what an earlier call '
               'left behind instead of on its own arguments' % why)
    if not effs:
        enf = prog.func(POLICY + '.Enforcer.enforce')
        ctx.ob(rule, True, ctx.where(enf.module, enf.node), enf.qual,
               'side effects of the decision region (%d functions)' % len(
                   decision_region(prog)),
               'none besides the system_scope mirror: nothing is kept '
               'between calls and arguments are not modified')

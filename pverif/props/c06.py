"""C06 - rule:NAME is a transparent alias (necessary conditions)."""
import ast

from .. import PKG
from .. import grammar as G
from ..dte import Table
from ..enforce_model import (enforce_table, path_features, is_check_call,
                             check_call_args)
from ..model import AnalysisError
from ..util import U, is_const, method_call, walk_no_nested, self_attr

CHECKS = PKG + '._checks'
POLICY = PKG + '.policy'
ROLES = ['target', 'creds', 'enforcer', 'current_rule']


def check_pass_through(ctx):
    prog = ctx.prog
    base = CHECKS + '.BaseCheck'
    n = 0
    for q in sorted(prog.subclasses(base)):
        c = prog.classes[q]
        f = c.methods.get('__call__')
        if f is None:
            continue
        # nested evaluations as they happen on the paths of __call__ (module
        # helpers inlined, functools.partial applications spelled out)
        from ..dte import inline_helpers
        t = Table(prog, f, inline=inline_helpers(
            prog, modules={CHECKS}, exclude={CHECKS + '._check'}),
            max_depth=3)
        calls = []
        seen = set()
        for p in t.paths:
            for ev in p.events:
                if ev.kind not in ('call', 'maycall') or not isinstance(
                        ev.node, ast.Call):
                    continue
                x = t.expand(ev.node)
                if not is_check_call(prog, t.module_of(ev.frame), x):
                    continue
                k = (ev.line, U(x))
                if k not in seen:
                    seen.add(k)
                    calls.append(x)
        if not calls:
            continue
        prm = f.params[1:]
        for call in calls:
            n += 1
            a = check_call_args(call)
            bad = []
            for i, role in enumerate(ROLES):
                got = a.get(role)
                want = prm[i] if i < len(prm) else None
                if got is None or want is None or U(got) != want:
                    bad.append('%s <- %s (expected own parameter %s)' % (
                        role, U(got) if got is not None else 'missing',
                        want))
            ctx.ob('C06.PASS-THROUGH', not bad, ctx.where(f.module, call)
                   if hasattr(call, 'lineno') else ctx.where(f.module,
                                                             f.node),
                   f.qual, U(call),
                   'nested evaluation receives target, credentials, enforcer '
                   'and current rule name unchanged' if not bad else
                   'a nested check is not evaluated with the caller\'s own '
                   'arguments: ' + '; '.join(bad))
    ctx.floor('C06.PASS-THROUGH', n, 2, 'nested _check calls')


def check_late_lookup(ctx):
    prog = ctx.prog
    cq = prog.registered_checks().get('rule')
    if cq is None:
        raise AnalysisError("no class registered for kind 'rule'")
    f = prog.find_method(cq, '__call__')
    enf_p = f.params[3]
    from ..dte import inline_helpers
    t = Table(prog, f, inline=inline_helpers(
        prog, modules={CHECKS}, exclude={CHECKS + '._check'}), max_depth=4)
    W = ctx.where(f.module, f.node)
    n = 0
    for p in t.paths:
        if p.outcome.kind != 'return' or p.outcome.expr is None:
            continue
        e = t.expand(p.outcome.expr)
        if not (isinstance(e, ast.Call) and is_check_call(
                prog, t.module_of(p.outcome.frame), e)):
            continue
        n += 1
        a = check_call_args(e)
        r = a.get('rule')
        rx = t.expand(r) if r is not None else None
        ok = isinstance(rx, ast.Subscript) and U(rx.value) == \
            enf_p + '.rules' and U(t.expand(rx.slice)) == 'self.match'
        ctx.ob('C06.LATE-LOOKUP', ok, '%s:%d' % (W.split(':')[0],
                                                 p.outcome.line), f.qual,
               'alias resolution ' + (U(rx) if rx is not None else '(none)'),
               'the referenced rule is looked up in enforcer.rules by '
               'self.match at call time and that definition is evaluated'
               if ok else
               'the alias does not resolve self.match in enforcer.rules at '
               'call time / does not evaluate the looked-up definition')
    if n == 0:
        ctx.ob('C06.LATE-LOOKUP', False, W, f.qual, 'alias resolution (none)',
               'the alias does not resolve self.match in enforcer.rules at '
               'call time: no path evaluates a looked-up definition')
    # no state kept on the alias object, no lookup at construction
    c = prog.classes[cq]
    stores = []
    for m in c.methods.values():
        for x in walk_no_nested(m.node):
            if isinstance(x, (ast.Assign, ast.AugAssign)):
                ts = x.targets if isinstance(x, ast.Assign) else [x.target]
                for t in ts:
                    if self_attr(t):
                        stores.append((m, x))
    ctx.ob('C06.LATE-LOOKUP', not stores, ctx.where(
        c.module, stores[0][1] if stores else c.node), cq,
        'alias object state', 'the alias class caches nothing'
        if not stores else 'the alias class stores state on itself (%s): a '
        'reference may be resolved once and go stale' % U(stores[0][1]))


def check_transparent(ctx):
    """The alias is a pure pass-through: it has no side effects and its
    result is the result of evaluating the referenced definition (or False
    for an undefined reference)."""
    from ..effects import effects_of
    prog = ctx.prog
    cq = prog.registered_checks().get('rule')
    f = prog.find_method(cq, '__call__')
    W = ctx.where(f.module, f.node)
    effs = effects_of(f)
    ctx.ob('C06.TRANSPARENT', not effs, ctx.where(f.module, effs[0].node)
           if effs else W, f.qual,
           'side effects of the alias: %s' % ([U(e.node)[:50] for e in effs]
                                              or 'none'),
           'evaluating an alias leaves no state behind' if not effs else
           'evaluating a rule: reference writes state (%s): a later '
           'evaluation of the same reference can decide differently from '
           'its definition' % effs[0].path)
    from ..dte import inline_helpers
    t = Table(prog, f, inline=inline_helpers(
        prog, modules={CHECKS}, exclude={CHECKS + '._check'}), max_depth=4)
    bad = None
    for p in t.paths:
        exc = any(c.kind == 'exc' for c in p.conds)
        if p.outcome.kind != 'return' or p.outcome.expr is None:
            bad = bad or (p, p.outcome.text())
            continue
        e = t.expand(p.outcome.expr)
        if exc:
            if not is_const(e, False):
                bad = bad or (p, 'returns %s for an undefined reference'
                              % U(e))
        elif not (isinstance(e, ast.Call) and is_check_call(
                prog, f.module, e)):
            bad = bad or (p, 'returns %s instead of the result of '
                          'evaluating the definition' % U(e)[:80])
        elif [c for c in p.conds if c.kind == 'test']:
            bad = bad or (p, 'evaluates the definition only under the '
                          'condition %s' % p.cond_text()[:120])
    ctx.ob('C06.TRANSPARENT', bad is None, W, f.qual,
           'result of the alias (%d paths)' % len(t.paths),
           'always the decision of the current definition' if bad is None
           else 'the alias %s (path: %s)' % (bad[1],
                                             bad[0].cond_text()[-200:]))
    # other evaluation-side code must not cache decisions either: enforce
    # and _check write nothing but the documented creds mirror
    chk = prog.func(CHECKS + '._check')
    effs = effects_of(chk)
    # local list building is fine; attribute / global writes are not
    effs = [e for e in effs if e.kind in ('store', 'global', 'del')
            or (e.kind.startswith('mutcall') and '.' in e.path)]
    ctx.ob('C06.TRANSPARENT', not effs, ctx.where(chk.module, effs[0].node)
           if effs else ctx.where(chk.module, chk.node), chk.qual,
           'side effects of the adapter: %s' % ([U(e.node)[:50]
                                                 for e in effs] or 'none'),
           'the adapter keeps no state' if not effs else
           'the adapter that calls every check writes state (%s): what it '
           'remembers for one check class or call can leak into the next'
           % effs[0].path)


def check_adapter(ctx):
    prog = ctx.prog
    f = prog.func(CHECKS + '._check')
    prm = f.params
    if prm[:5] != ['rule', 'target', 'creds', 'enforcer', 'current_rule']:
        ctx.ob('C06.ADAPTER', False, ctx.where(f.module, f.node), f.qual,
               'signature %s' % prm, 'the adapter\'s parameter roles changed')
        return
    from ..dte import inline_helpers
    t = Table(prog, f, inline=inline_helpers(prog, modules={CHECKS},
                                             classes=False), max_depth=4)
    W = ctx.where(f.module, f.node)
    rows = {}
    for p in t.paths:
        if p.outcome.kind != 'return' or p.outcome.expr is None:
            ctx.ob('C06.ADAPTER', False, W, f.qual, p.outcome.text(),
                   'the adapter does not return the rule\'s result')
            continue
        e = t.expand(p.outcome.expr)
        if not (isinstance(e, ast.Call) and U(e.func) == 'rule'):
            ctx.ob('C06.ADAPTER', False, W, f.qual, U(e),
                   'the adapter does not call the rule')
            continue
        # positional argument list
        args = []
        okshape = True
        for a in e.args:
            if isinstance(a, ast.Starred) and isinstance(
                    a.value, (ast.List, ast.Tuple)):
                args.extend(U(x) for x in a.value.elts)
            elif isinstance(a, ast.Starred):
                okshape = False
            else:
                args.append(U(a))
        # appended afterwards (statement-level list.append)
        base_list = None
        for a in e.args:
            if isinstance(a, ast.Starred):
                base_list = a.value
        for ev in p.events:
            if ev.kind == 'call' and method_call(ev.node, 'append') and \
                    base_list is not None and U(t.expand(
                        method_call(ev.node)[0])) == U(base_list):
                args.append(U(ev.node.args[0]))
            elif ev.kind == 'aug' and base_list is not None and \
                    isinstance(getattr(ev, 'value', None), (ast.List,
                                                            ast.Tuple)) \
                    and U(t.expand(ev.node)) == U(base_list):
                args.extend(U(x) for x in ev.value.elts)    # L += [x]
            elif ev.kind == 'call' and method_call(ev.node, 'pop') and \
                    not ev.node.args and base_list is not None and U(
                        t.expand(method_call(ev.node)[0])) == U(
                            base_list) and args:
                args.pop()          # statement-level list.pop()
        kws = {k.arg: U(k.value) for k in e.keywords}
        # threshold condition
        conds = [c for c in p.conds if c.kind == 'test']
        thr = None
        def sized(x):
            """(N -> size, subject) for len(A) / len(A[k:]) / A[k:] where N
            is len(A)"""
            if isinstance(x, ast.BinOp) and isinstance(
                    x.op, (ast.Sub, ast.Add)) and is_const(x.right) and \
                    isinstance(x.right.value, int):
                # len(A) - k / len(A) + k
                inner = sized(x.left)
                if inner is None:
                    return None
                k1 = x.right.value if isinstance(x.op, ast.Add) \
                    else -x.right.value
                return (lambda n, f=inner[0], k1=k1: f(n) + k1), inner[1]
            if isinstance(x, ast.Call) and U(x.func) == 'len' and len(
                    x.args) == 1:
                x = x.args[0]
            elif not isinstance(x, ast.Subscript):
                return None
            if isinstance(x, ast.Subscript) and isinstance(
                    x.slice, ast.Slice) and x.slice.upper is None and \
                    x.slice.step is None and is_const(x.slice.lower) and \
                    isinstance(x.slice.lower.value, int) and \
                    x.slice.lower.value >= 0:
                k0 = x.slice.lower.value
                return (lambda n, k0=k0: max(0, n - k0)), U(x.value)
            if isinstance(x, ast.Subscript):
                return None
            return (lambda n: n), U(x)
        OPS = {ast.Gt: lambda a, b: a > b, ast.GtE: lambda a, b: a >= b,
               ast.Lt: lambda a, b: a < b, ast.LtE: lambda a, b: a <= b,
               ast.Eq: lambda a, b: a == b, ast.NotEq: lambda a, b: a != b}
        for c in conds:
            ce = t.expand(c.expr)
            if isinstance(ce, ast.Compare) and len(ce.ops) == 1 and \
                    isinstance(ce.comparators[0], ast.Call) and U(
                        ce.comparators[0].func) == 'len' and len(
                            ce.comparators[0].args) == 1:
                # compared with the length of the argument list as written
                # (before anything was appended to or popped off it)
                lx = t.expand(ce.comparators[0].args[0])
                if isinstance(lx, ast.Name) and isinstance(
                        t.en.defs.get(lx.id) if hasattr(t, 'en') else None,
                        (ast.List, ast.Tuple)):
                    lx = t.en.defs[lx.id]
                if isinstance(lx, (ast.List, ast.Tuple)) and not any(
                        isinstance(x, ast.Starred) for x in lx.elts):
                    ce = ast.Compare(left=ce.left, ops=ce.ops, comparators=[
                        ast.Constant(value=len(lx.elts))])
            if isinstance(ce, ast.Compare) and len(ce.ops) == 1 and \
                    type(ce.ops[0]) in OPS and is_const(
                        ce.comparators[0]) and sized(ce.left) and \
                    isinstance(ce.left, (ast.Call, ast.BinOp)):
                size, subj = sized(ce.left)
                n0 = ce.comparators[0].value
                op = OPS[type(ce.ops[0])]
                thr = ((lambda k, op=op, n0=n0, size=size:
                        op(size(k), n0)), c.pol, subj)
            elif sized(ce) and (isinstance(ce, ast.Subscript) or (
                    isinstance(ce, ast.Call)
                    and isinstance(ce.args[0], ast.Subscript))):
                # truthiness of A[k:] / len(A[k:])
                size, subj = sized(ce)
                thr = ((lambda k, size=size: size(k) > 0), c.pol, subj)
        # (one row per call shape and deciding condition: a second path
        # with the same arguments but no arity test is a row of its own)
        rows[(tuple(args), thr is None, len(rows) if thr is None else (
            thr[1], thr[2]))] = (thr, kws, okshape, p)
    want4 = ('target', 'creds', 'enforcer')
    want5 = ('target', 'creds', 'enforcer', 'current_rule')
    shapes = {k[0] for k in rows}
    for (args, _nothr, _k), (thr, kws, okshape, p) in rows.items():
        if kws and okshape:
            ctx.ob('C06.ADAPTER', False, W, f.qual, 'call shape %s %s' % (
                args, kws), 'the rule name is handed to the check by '
                'keyword, chosen by something other than the number of '
                'parameters its __call__ declares')
            continue
        if not okshape or kws:
            raise AnalysisError(
                'the adapter %s passes its arguments in a way the analysis '
                'does not read (call shape %s %s on path %s): which checks '
                'are handed the rule name is not decided' % (
                    f.qual, args, kws, p.cond_text()[-120:]))
        if args not in (want4, want5):
            ctx.ob('C06.ADAPTER', False, W, f.qual,
                   'rule(%s)' % ', '.join(args),
                   'the adapter calls the rule with (%s) instead of '
                   '(target, creds, enforcer[, current_rule])'
                   % ', '.join(args))
            continue
        if thr is None:
            ok = len(rows) == 1 and args == want5
            ctx.ob('C06.ADAPTER', ok, W, f.qual,
                   'rule(%s) unconditionally' % ', '.join(args),
                   'always passes the current rule' if ok else
                   'the 3/4-argument choice is not made on the arity of '
                   'the rule\'s __call__')
            continue
        holds, pol, subj = thr
        # 5 parameters incl. self accept current_rule; 4 do not
        takes5 = (holds(5) == pol)
        takes4 = (holds(4) == pol)
        if args == want5:
            ok = takes5 and not takes4
        else:
            ok = takes4 and not takes5
        ok = ok and subj.endswith('.args')
        ctx.ob('C06.ADAPTER', ok, W, f.qual,
               'rule(%s) when %s' % (', '.join(args), p.cond_text()),
               'current_rule is passed exactly to checks whose __call__ '
               'takes it' if ok else
               'the arity test selects the wrong argument list: a check '
               'whose __call__ has %d parameters would be called with %d '
               'arguments' % (5 if args == want4 else 4, len(args)))
    ctx.count(len(t.paths))
    ctx.floor('C06.ADAPTER', len(shapes), 2, 'adapter call shapes')


def check_entry(ctx):
    prog = ctx.prog
    t = enforce_table(ctx)
    enf = t.enf
    W = ctx.where(enf.module, enf.node)
    prm = enf.params
    seen = set()
    for p in t.paths:
        ft = path_features(t, p)
        for i, ev in ft['check']:
            if ev.kind != 'call':
                continue
            a = check_call_args(ev.node)
            key = tuple((r, U(t.expand(a[r])) if r in a else None)
                        for r in ['rule'] + ROLES)
            if key in seen:
                continue
            seen.add(key)
            d = dict(key)
            is_obj = d['rule'] == 'rule'
            if is_obj:
                ok = d['current_rule'] == 'None'
                why = 'a check object is evaluated with current_rule None'
            else:
                ok = d['rule'] == 'self.rules[rule]' and \
                    d['current_rule'] == 'rule'
                why = 'a named policy is evaluated with its own name as ' \
                      'current rule'
            ok = ok and d['target'] == 'target' and d['enforcer'] == 'self'
            creds_ok = d['creds'] == 'creds' or 'SYM_' in (d['creds'] or '') \
                or (d['creds'] or '').startswith(
                    'self._map_context_attributes_into_creds')
            ok = ok and creds_ok
            ctx.ob('C06.ENTRY', ok, '%s:%d' % (W.split(':')[0], ev.line),
                   enf.qual, 'enforce -> _check(%s)' % ', '.join(
                       '%s=%s' % kv for kv in key),
                   why if ok else 'enforce evaluates the rule with the '
                   'wrong roles: %s' % (d,))
    # enforce() looks the rule store up under the enforced name only:
    # references inside a definition are resolved by the reference check
    # (and its fail-closed handling), one evaluation per reference
    for n in ast.walk(enf.node):
        key = None
        if isinstance(n, ast.Subscript) and isinstance(
                n.ctx, ast.Load) and U(n.value) == 'self.rules':
            key = n.slice
        elif isinstance(n, ast.Call) and method_call(n, 'get') and U(
                method_call(n)[0]) == 'self.rules' and n.args:
            key = n.args[0]
        if key is None:
            continue
        ok = U(key) == prm[1]
        ctx.ob('C06.ENTRY', ok, ctx.where(enf.module, n), enf.qual,
               'rule-store lookup ' + U(n)[:60],
               'under the enforced name' if ok else
               'enforce() resolves a reference itself (%s): the policy is '
               'then not decided as its definition - evaluated with each '
               'reference resolved where it stands - decides (a different '
               'current rule, a different answer for a long or undefined '
               'chain)' % U(n)[:50])
    ctx.count(len(t.paths))
    ctx.floor('C06.ENTRY', len(seen), 2, 'evaluation entry calls')


def check(ctx):
    ctx.use(CHECKS, POLICY)
    ctx.explain('C06: sibling agreement of every nested _check call on the '
                'argument roles, late lookup in the alias class, the '
                'adapter\'s arity decision evaluated on {4, 5} parameters, '
                'and the entry calls of enforce.')
    ctx.assume('custom check classes follow the BaseCheck.__call__ protocol')
    check_pass_through(ctx)
    check_late_lookup(ctx)
    check_transparent(ctx)
    check_adapter(ctx)
    check_entry(ctx)
    # C06.UNDEFINED = C03.RAISE-CATCH at the alias lookup
    from .c03 import check_raise_catch, check_default_src
    sub = ctx.findings
    before = len(ctx.findings)
    check_raise_catch(ctx)
    for f in ctx.findings[before:]:
        f.rule = 'C06.UNDEFINED'
    # ... and an undefined reference falls back to the enforcer's default
    # rule, which the store must therefore carry (= C03.DEFAULT-SRC)
    ctx.borrow('C06.UNDEFINED', check_default_src)
    # ... through Rules.__missing__, for every kind of default rule (a name
    # the store defines, a check object; = C03.MISSING)
    from .c03 import check_missing
    ctx.borrow('C06.UNDEFINED', check_missing, only=['C03.MISSING'])
    # the answer for a name depends on the store as it is now: nothing is
    # remembered per name between calls (= C07.STATELESS)
    from .c07 import check_stateless
    check_stateless(ctx, 'C06.STATELESS')

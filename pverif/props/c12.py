"""C12 - loading is idempotent and never mutates what the service
registered (ownership / effect analysis)."""
import ast

from .. import PKG
from .. import grammar as G
from ..effects import effects_of, MUTATORS
from ..load_model import roles
from ..model import AnalysisError
from ..util import U, is_const, method_call, walk_no_nested, self_attr

POLICY = PKG + '.policy'
CHECKS = PKG + '._checks'
ENF = POLICY + '.Enforcer'
SOURCE = 'self.registered_rules'


def root_name(expr):
    while True:
        if isinstance(expr, (ast.Attribute, ast.Subscript)):
            expr = expr.value
        elif isinstance(expr, ast.Call):
            if isinstance(expr.func, ast.Attribute):
                expr = expr.func.value
            else:
                return None
        elif isinstance(expr, ast.Starred):
            expr = expr.value
        else:
            break
    return expr.id if isinstance(expr, ast.Name) else None


def derives_from_source(expr):
    """Does the expression read (an element of) self.registered_rules?"""
    for n in ast.walk(expr):
        if isinstance(n, ast.Attribute) and U(n) == SOURCE:
            return True
    return False


def is_copy(prog, module, expr, depth=2):
    """copy.deepcopy(x), or a one-argument helper of the package that only
    hands back the deep copy of its argument."""
    if not isinstance(expr, ast.Call):
        return False
    r = prog.resolve(module, expr.func)
    if r in ('ext:copy.deepcopy',):
        return True
    g = prog.functions.get(r) if isinstance(r, str) else None
    if g is None or depth <= 0 or g.cls is not None or len(
            expr.args) != 1 or expr.keywords:
        return False
    body = [b for b in g.node.body if not (isinstance(b, ast.Expr) and
                                           isinstance(b.value, ast.Constant))]
    return len(body) == 1 and isinstance(body[0], ast.Return) and is_copy(
        prog, g.module, body[0].value, depth - 1) and len(
            body[0].value.args) == 1 and isinstance(
                body[0].value.args[0], ast.Name) and len(
                    g.params) == 1 and body[0].value.args[0].id == g.params[0]


class Taint:
    """Names holding (parts of) registered defaults, per function, to a
    fixpoint over the region's call graph."""

    def __init__(self, prog, region):
        self.prog = prog
        self.region = region
        self.params = {q: set() for q in region}   # tainted parameters
        self.local = {}
        self.returns = {q: False for q in region}

    def expr_tainted(self, f, expr, names):
        if expr is None:
            return False
        if is_copy(self.prog, f.module, expr):
            return False
        if derives_from_source(expr):
            return True
        if isinstance(expr, ast.Call):
            g = self.prog.callee_of(f, expr)
            if g is not None and g.qual in self.region and \
                    self.returns.get(g.qual):
                return True
            if g is not None and g.name == '__init__':
                return False        # a freshly constructed object
            if isinstance(expr.func, ast.Attribute):
                # accessor on a tainted object: .values() .get() .items()
                r = root_name(expr.func.value)
                if r in names and expr.func.attr in (
                        'values', 'items', 'get', 'copy', '__getitem__'):
                    return expr.func.attr != 'copy' or True
            return False
        if isinstance(expr, (ast.Attribute, ast.Subscript)):
            r = root_name(expr)
            return r in names
        if isinstance(expr, ast.Name):
            return expr.id in names
        if isinstance(expr, (ast.BoolOp,)):
            return any(self.expr_tainted(f, v, names) for v in expr.values)
        if isinstance(expr, ast.IfExp):
            return self.expr_tainted(f, expr.body, names) or \
                self.expr_tainted(f, expr.orelse, names)
        if isinstance(expr, (ast.Tuple, ast.List)):
            return any(self.expr_tainted(f, v, names) for v in expr.elts)
        return False

    def analyse(self, f):
        names = set(self.params[f.qual])
        changed = True
        while changed:
            changed = False
            for n in walk_no_nested(f.node):
                tgts, val = [], None
                if isinstance(n, ast.Assign):
                    tgts, val = n.targets, n.value
                elif isinstance(n, ast.AnnAssign) and n.value is not None:
                    tgts, val = [n.target], n.value
                elif isinstance(n, (ast.For, ast.comprehension)):
                    tgts, val = [n.target], n.iter
                elif isinstance(n, ast.NamedExpr):
                    tgts, val = [n.target], n.value
                if val is None:
                    continue
                if self.expr_tainted(f, val, names):
                    for t in tgts:
                        for x in ast.walk(t):
                            if isinstance(x, ast.Name) and isinstance(
                                    x.ctx, ast.Store) and x.id not in names:
                                names.add(x.id)
                                changed = True
        self.local[f.qual] = names
        return names

    def run(self):
        work = list(self.region.values())
        rounds = 0
        while work and rounds < 400:
            rounds += 1
            f = work.pop()
            names = self.analyse(f)
            # propagate into callees
            for n in walk_no_nested(f.node):
                if not isinstance(n, ast.Call):
                    continue
                g = self.prog.callee_of(f, n)
                if g is None or g.qual not in self.region:
                    continue
                gp = g.params
                if g.cls is not None and not g.is_static and (
                        isinstance(n.func, ast.Attribute)
                        or g.name == '__init__'):
                    gp = gp[1:]
                bound = list(zip(gp, n.args)) + [
                    (k.arg, k.value) for k in n.keywords if k.arg]
                for pn, a in bound:
                    if self.expr_tainted(f, a, names) and \
                            pn not in self.params[g.qual]:
                        self.params[g.qual].add(pn)
                        if g not in work:
                            work.append(g)
            # does f return tainted?
            rt = any(isinstance(n, ast.Return) and self.expr_tainted(
                f, n.value, names) for n in walk_no_nested(f.node))
            if rt and not self.returns[f.qual]:
                self.returns[f.qual] = True
                for h in self.region.values():
                    if any(g is f for _, g in self.prog.callees(h)) and \
                            h not in work:
                        work.append(h)


def check_copy_in(ctx):
    from ..dte import Table, inline_helpers
    prog = ctx.prog
    enf = prog.cls(ENF)
    n = 0
    for m in sorted(enf.methods.values(), key=lambda x: x.qual):
        effs = [e for e in effects_of(m) if e.path.startswith(SOURCE)]
        if not effs:
            continue
        for e in effs:
            node = e.node
            if e.kind == 'store' and e.path == SOURCE:
                ok = isinstance(node.value, ast.Dict) and not node.value.keys
                ctx.ob('C12.COPY-IN', ok, ctx.where(m.module, node), m.qual,
                       U(node), 'the registry is (re)started empty' if ok
                       else 'the registry of defaults is rebound to '
                       'something other than an empty dict')
            elif isinstance(node, ast.Call) and method_call(
                    node, 'setdefault') and len(node.args) == 2 and U(
                        method_call(node)[0]) == SOURCE:
                # store-unless-present: what may be stored is a deep copy
                v = node.args[1]
                if isinstance(v, ast.Name):
                    defs = [a.value for a in walk_no_nested(m.node)
                            if isinstance(a, ast.Assign) and len(
                                a.targets) == 1 and U(a.targets[0]) == v.id]
                    v = defs[0] if len(defs) == 1 else v
                ok = is_copy(prog, m.module, v) and len(v.args) == 1 \
                    and isinstance(v.args[0], ast.Name) and \
                    v.args[0].id in m.params and U(
                        node.args[0]) == v.args[0].id + '.name'
                n += 1
                ctx.ob('C12.COPY-IN', ok, ctx.where(m.module, node), m.qual,
                       U(node)[:100],
                       'a registered default is stored as a deep copy of '
                       'what the service passed in' if ok else
                       'a default enters the registry without being '
                       'deep-copied (shallow copy or the caller\'s own '
                       'object)')
            elif not (e.kind == 'substore' and e.path == SOURCE):
                n += 1
                ctx.ob('C12.COPY-IN', False, ctx.where(m.module, node),
                       m.qual, U(node)[:100],
                       'the registry of defaults is changed other than by '
                       'storing a deep copy under a name')
        if not any(e.kind == 'substore' and e.path == SOURCE for e in effs):
            continue
        t = Table(prog, m, handler_paths=True, inline=inline_helpers(
            prog, modules={POLICY}, classes=False))
        seen = set()
        for p in t.paths:
            for ev in p.events:
                if ev.kind != 'store' or not isinstance(
                        ev.node, ast.Subscript) or U(
                            ev.node.value) != SOURCE:
                    continue
                v = t.expand(ev.value)
                ok = is_copy(prog, m.module, v) and len(v.args) == 1 \
                    and isinstance(v.args[0], ast.Name) and \
                    v.args[0].id in m.params
                # ... under the default's own name (the engine reads the
                # keys of the registry as the names of its values)
                if ok and U(t.expand(ev.node.slice)) != \
                        v.args[0].id + '.name':
                    ctx.ob('C12.COPY-IN', False, '%s:%d' % (ctx.where(
                        m.module, m.node).split(':')[0], ev.line), m.qual,
                        ev.text()[:100],
                        'a default is registered under %s, not under its own '
                        'name' % U(t.expand(ev.node.slice))[:40])
                key = (ev.line, ok)
                if key in seen:
                    continue
                seen.add(key)
                n += 1
                ctx.ob('C12.COPY-IN', ok, '%s:%d' % (ctx.where(
                    m.module, m.node).split(':')[0], ev.line), m.qual,
                    ev.text()[:100],
                    'a registered default is stored as a deep copy of what '
                    'the service passed in' if ok else
                    'a default enters the registry without being deep-copied '
                    '(shallow copy or the caller\'s own object): loading can '
                    'then alter the service\'s objects and enforcers sharing '
                    'them influence one another')
    ctx.floor('C12.COPY-IN', n, 1, 'registry stores')
    rd = prog.func(POLICY + '.RuleDefault.__init__')
    t = Table(prog, rd, handler_paths=False, inline=inline_helpers(
        prog, modules={POLICY}, classes=False))
    bad = None
    nst = 0
    for p in t.paths:
        for ev in p.events:
            if ev.kind != 'store' or not (self_attr(ev.node) and
                                          'deprecated_rule' in
                                          self_attr(ev.node)):
                continue
            nst += 1
            v = t.expand(ev.value)
            parts = v.values if isinstance(v, ast.BoolOp) and isinstance(
                v.op, ast.Or) else [v]
            for x in parts:
                if is_copy(prog, rd.module, x) and len(x.args) == 1 and U(
                        x.args[0]) == 'deprecated_rule':
                    continue
                if isinstance(x, (ast.List, ast.Tuple, ast.Dict)) and not (
                        x.elts if not isinstance(x, ast.Dict) else x.keys):
                    continue
                if is_const(x, None):
                    continue
                bad = bad or (ev, U(v))
    ok = bad is None and nst > 0
    ctx.ob('C12.COPY-IN', ok, '%s:%d' % (ctx.where(
        rd.module, rd.node).split(':')[0], bad[0].line) if bad
        else ctx.where(rd.module, rd.node), rd.qual,
        ('self._deprecated_rule = ' + bad[1])[:100] if bad
        else 'deprecated_rule',
        'the deprecated rule is deep-copied into the default' if ok else
        'RuleDefault keeps the caller\'s DeprecatedRule object instead '
        'of a deep copy')


def check_node_writes(ctx, rule):
    """The check objects of a registered default are the very nodes that are
    evaluated: a check method on the evaluation side that stores into its
    own node (a memo, a counter, the request being decided) alters what the
    service registered - and makes one evaluation see what another left."""
    prog = ctx.prog
    classes = G.check_classes(prog)
    helpers = set()
    for cc in classes.values():
        helpers |= set(cc.append_methods) | set(cc.pop_methods)
    # (checks are called through the adapter, dynamically: their __call__
    # methods and what those reach are the evaluation side)
    ev_region = {}
    for q in classes:
        call = prog.find_method(q, '__call__')
        if call is not None and call.module.name.startswith(PKG):
            ev_region.update(prog.region(call))
    ctx.extra['evaluation_region'] = len(ev_region)
    n = 0
    for q, f in sorted(ev_region.items()):
        if f.cls is None or f.cls.qual not in classes or f.name in (
                '__init__',) or f.name in helpers:
            continue
        for e in effects_of(f):
            if e.kind == 'global' or not e.path.startswith('self.'):
                continue
            n += 1
            ctx.ob(rule, False, ctx.where(f.module, e.node),
                   f.qual, U(e.node)[:100],
                   'this %s writes into the check node itself (`%s`) while '
                   'rules are evaluated: the node can be part of a '
                   'registered default, which evaluation then alters, and '
                   'what it holds is seen by every other evaluation of the '
                   'same node (another request, a later reload)' % (
                       e.kind, e.path))
    return n, len(ev_region)


def check_no_write(ctx):
    prog = ctx.prog
    region = dict(prog.region(ENF + '.load_rules', ENF + '.enforce'))
    # leave out the parser: it builds fresh trees (C12.MUTATORS covers it)
    region = {q: f for q, f in region.items()
              if not q.startswith(PKG + '._parser')}
    tn = Taint(prog, region)
    tn.run()
    n_eff = n_tainted_fn = 0
    for q, f in sorted(region.items()):
        names = tn.local.get(q, set())
        if names:
            n_tainted_fn += 1
        for e in effects_of(f):
            n_eff += 1
            if e.kind == 'global':
                continue
            root = e.path.split('.')[0].split('[')[0]
            target_is_source = e.path.startswith(SOURCE)
            if root in names or (target_is_source and e.kind != 'store'):
                if target_is_source and e.kind == 'substore':
                    continue     # registry insertion: C12.COPY-IN
                # rebinding the tainted *name* itself is harmless; effects
                # are stores into / mutator calls on the object
                ctx.ob('C12.NO-WRITE', False, ctx.where(f.module, e.node),
                       f.qual, U(e.node)[:100],
                       'this %s writes through `%s`, which aliases a '
                       'registered default (or a rule object reachable from '
                       'it): loading/enforcing alters what the service '
                       'registered' % (e.kind, e.path))
    check_node_writes(ctx, 'C12.NO-WRITE')
    ctx.count(n_eff)
    ctx.floor('C12.NO-WRITE', n_tainted_fn, 2,
              'functions handling registered defaults')
    if not any(o['rule'] == 'C12.NO-WRITE' for o in ctx.obligations):
        ctx.ob('C12.NO-WRITE', True, ctx.where(
            prog.func(ENF + '.load_rules').module,
            prog.func(ENF + '.load_rules').node), ENF + '.load_rules',
            'region of %d functions, %d effects' % (len(region), n_eff),
            'no store or mutator call reaches a registered default or an '
            'object reachable from it (%d functions hold such aliases)'
            % n_tainted_fn)
    return region


def check_mutators(ctx):
    prog = ctx.prog
    classes = G.check_classes(prog)
    pstate = G.find_parse_state(prog)
    helper_names = set()
    child_attrs = set()
    for cc in classes.values():
        helper_names |= set(cc.append_methods) | set(cc.pop_methods)
        if cc.child_attr:
            child_attrs.add(cc.child_attr)
    inside = outside = 0
    # helpers of the parser module that only the reducers call work on trees
    # built during the same parse, like the reducers themselves
    reducer_region = set()
    for m in pstate.methods.values():
        reducer_region |= set(prog.region(m))
    called_elsewhere = set()
    for g in prog.functions.values():
        if g.qual in reducer_region:
            continue
        for _c, h in prog.callees(g):
            called_elsewhere.add(h.qual)
    for f in prog.functions.values():
        in_parser = f.cls is pstate or (
            f.module is pstate.module and f.cls is None
            and f.qual in reducer_region
            and f.qual not in called_elsewhere)
        in_checks = f.module.name == CHECKS
        for n in walk_no_nested(f.node):
            if isinstance(n, ast.Call):
                mc = method_call(n)
                if mc and mc[1] in helper_names:
                    if in_parser:
                        inside += 1
                        continue
                    if G.fresh_tree_local(prog, f, mc[0], classes):
                        # a tree this function has just constructed over
                        # a new list
                        continue
                    outside += 1
                    ctx.ob('C12.MUTATORS', False, ctx.where(f.module, n),
                           f.qual, U(n)[:100],
                           'a check tree is extended/popped in place outside '
                           'the parser: the tree may be one the service '
                           'registered, so a merged check can grow on every '
                           'load')
                elif mc and mc[1] in MUTATORS and isinstance(
                        mc[0], ast.Attribute) and mc[0].attr in child_attrs \
                        and not in_checks and not (
                            isinstance(mc[0].value, ast.Name)
                            and mc[0].value.id == 'self'
                            and f.cls is not None
                            and not prog.is_subclass(
                                f.cls.qual, CHECKS + '.BaseCheck')):
                    outside += 1
                    ctx.ob('C12.MUTATORS', False, ctx.where(f.module, n),
                           f.qual, U(n)[:100],
                           'the child list of a check is mutated in place '
                           'outside the check classes')
    ctx.floor('C12.MUTATORS', inside, 3, 'in-parser tree mutations '
              '(positive control)')
    if not outside:
        ctx.ob('C12.MUTATORS', True, ctx.where(pstate.module, pstate.node),
               pstate.qual, 'who may call %s' % sorted(helper_names),
               '%d calls, all inside the parser\'s reducers (on trees built '
               'during the same parse); none elsewhere' % inside)


def check_fresh_or(ctx):
    prog = ctx.prog
    r = roles(ctx)
    f = r.deprecated
    classes = G.check_classes(prog)
    n = 0
    from ..dte import Table, inline_helpers
    t = Table(prog, f, inline=inline_helpers(
        prog, modules={POLICY}, exclude={r.load_rules.qual, r.loader.qual,
                                         POLICY + '.Enforcer.check_rules'}),
        max_depth=4)
    F = ctx.where(f.module, f.node).split(':')[0]
    seen = set()
    for p in t.paths:
        if p.outcome.kind != 'return' or p.outcome.expr is None:
            continue
        v = G.fold_builders(prog, t.module_of(p.outcome.frame),
                            t.expand(p.outcome.expr), classes)
        if not isinstance(v, ast.Call):
            continue
        key = (p.outcome.line, U(v))
        if key in seen:
            continue
        seen.add(key)
        cc = classes.get(prog.resolve(t.module_of(p.outcome.frame), v.func))
        n += 1
        ok = cc is not None and cc.sem in ('or', 'and') and len(
            v.args) == 1 and isinstance(v.args[0], (ast.List, ast.Tuple))
        ctx.ob('C12.FRESH-OR', ok, '%s:%d' % (F, p.outcome.line),
               p.outcome.frame or f.qual, 'return ' + U(v)[:100],
               'the merged check is a new object over the two existing '
               'checks (a new list, nothing is extended)' if ok else
               'the merged deprecated check is not a freshly '
               'constructed combinator over a new list')
    ctx.floor('C12.FRESH-OR', n, 1, 'merged-check constructions')


def check_globals(ctx, region):
    """No module-level mutable state is written by, or handed out from,
    the load / enforce region (one named exception)."""
    from ..modstate import state_uses
    prog = ctx.prog
    allowed = {(CHECKS + '.get_extensions', 'extension_checks')}
    # the parser and file cache are part of the region for this rule
    full = dict(prog.region(ENF + '.load_rules', ENF + '.enforce'))
    # ... and so is everything else the enforcer class does (an alias of a
    # module-level object stored at construction is shared state too)
    for m in prog.cls(ENF).methods.values():
        full.setdefault(m.qual, m)
    n = 0
    for f, node, name, how in state_uses(prog, full):
        n += 1
        ok = (f.qual, name) in allowed
        ctx.ob('C12.GLOBALS', ok, ctx.where(f.module, node), f.qual,
               '%s module-level `%s`' % (how, name),
               'memoised extension table (named exception: computed once '
               'from entry points, independent of any enforcer)' if ok else
               'loading/enforcing %s the module-level object `%s`: state '
               'shared by every enforcer in the process, so enforcers built '
               'from the same objects influence one another' % (how, name))
    if n == 0:
        ctx.ob('C12.GLOBALS', True, ctx.where(
            prog.module(POLICY), prog.module(POLICY).tree), POLICY,
            'module-level state in the region (%d functions)' % len(full),
            'none written or handed out', nontrivial=False)


def check_identity(ctx, rule='C12.IDENTITY'):
    """Check objects keep Python's default identity / copy semantics: the
    deep copy at registration and the freshness of every parsed tree rely on
    it."""
    prog = ctx.prog
    base = CHECKS + '.BaseCheck'
    special = ('__new__', '__copy__', '__deepcopy__', '__reduce__',
               '__reduce_ex__', '__getstate__', '__setstate__',
               '__init_subclass__', '__class_getitem__')
    n = 0
    bad = 0
    for q in sorted(prog.subclasses(base)) + [POLICY + '._BaseRule',
                                              POLICY + '.RuleDefault',
                                              POLICY + '.DeprecatedRule']:
        c = prog.classes.get(q)
        if c is None:
            continue
        n += 1
        for m in special:
            if m in c.methods:
                bad += 1
                f = c.methods[m]
                ctx.ob(rule, False, ctx.where(f.module, f.node), f.qual,
                       '%s.%s' % (c.name, m),
                       '%s overrides %s: instances may be shared or copied '
                       'by reference, so state set on one check / default '
                       '(scope types, merged children) shows up on others '
                       'and the deep copy taken at registration no longer '
                       'isolates the service\'s objects' % (c.name, m))
    if not bad:
        ctx.ob(rule, True, ctx.where(prog.module(CHECKS),
                                     prog.module(CHECKS).tree), CHECKS,
               '%d check / rule-default classes' % n,
               'none overrides construction or copying (__new__, __copy__, '
               '__deepcopy__, __reduce__...)')


def check(ctx):
    ctx.use(POLICY, CHECKS, PKG + '._parser', PKG + '._cache_handler')
    ctx.explain('C12: ownership analysis.  Registered defaults enter the '
                'registry only as deep copies; a taint analysis over '
                'region(load_rules) U region(enforce) shows no store or '
                'mutator call writes through an alias of a registered '
                'default; tree mutators are called only by the parser; the '
                'merged deprecated check is a fresh object; no module-level '
                'state is written (one named exception).')
    ctx.assume('idempotence as a history property follows only together '
               'with C09-C11; it is not decided here')
    check_copy_in(ctx)
    # the rule store is the enforcer's own object as well: whatever mapping
    # (or Rules store) the service hands in, self.rules is a store built
    # here (the clause of C03.DEFAULT-SRC on rebinding self.rules) - a
    # store taken as it is gets the defaults of every enforcer sharing it
    # merged into it
    from . import c03 as _c03
    nf_, no_ = len(ctx.findings), len(ctx.obligations)
    ctx.borrow_soft('C12.COPY-IN', _c03.check_default_src,
                    only=['C03.DEFAULT-SRC'])
    ctx.findings[nf_:] = [x for x in ctx.findings[nf_:]
                          if x.construct.startswith('store self.rules')]
    ctx.obligations[no_:] = [x for x in ctx.obligations[no_:]
                             if x['construct'].startswith(
                                 'store self.rules')]
    region = check_no_write(ctx)
    check_mutators(ctx)
    check_fresh_or(ctx)
    check_globals(ctx, region)
    check_identity(ctx)
    # C12.RELOAD: loading again after files changed equals loading once
    # (the necessary conditions of C09.FIND / C10, reported under C12)
    from . import c10 as _c10, c09 as _c09
    nf, no = len(ctx.findings), len(ctx.obligations)
    _c09.check_find(ctx)
    _c10.check_dir_mtime(ctx)
    _c10.check_stale(ctx)
    _c10.check_reapply_and_reset(ctx)
    _c10.check_dir_forced(ctx)
    _c10.check_pair(ctx)
    # every enforcement call - whatever it is given to enforce - takes the
    # load step first (= C10.LOAD-FIRST)
    _c10.check_load_first(ctx)
    # no state that gates a store-writing step is switched off by a load:
    # later loads would skip that step for good
    from . import c20 as _c20
    _c20.check_gates(ctx, ctx.prog, ctx.prog.func(ENF + '.load_rules'))
    ctx.findings[nf:] = [f for f in ctx.findings[nf:]
                         if not f.rule.startswith('C20.LOAD-STEP')]
    ctx.obligations[no:] = [o for o in ctx.obligations[no:]
                            if not o['rule'].startswith('C20.LOAD-STEP')]
    for fd in ctx.findings[nf:]:
        fd.rule = 'C12.RELOAD(' + fd.rule + ')'
    for o in ctx.obligations[no:]:
        o['rule'] = 'C12.RELOAD(' + o['rule'] + ')'
    # C12.ONCE (= C11.GATE / C09.ORDER): what is stored for a registered
    # default is computed from the default at every load (no memo), and
    # only for names absent from the store
    from . import c11, c09
    nf, no = len(ctx.findings), len(ctx.obligations)
    c11.check_gate(ctx)
    c09.check_order(ctx)
    from ..load_model import check_merge_memo
    check_merge_memo(ctx, 'MEMO')
    for fd in ctx.findings[nf:]:
        fd.rule = 'C12.ONCE(' + fd.rule + ')'
    for o in ctx.obligations[no:]:
        o['rule'] = 'C12.ONCE(' + o['rule'] + ')'

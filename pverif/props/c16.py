"""C16 - a remote http(s) check allows only on an explicit True from the
server (necessary conditions on the two entry-point classes)."""
import ast

from .. import PKG
from ..dte import Table
from ..effects import effects_of
from ..model import AnalysisError
from ..util import (U, is_const, method_call, kwarg, walk_no_nested,
                    handler_names)

EXT = PKG + '._external'
CHECKS = PKG + '._checks'
SCHEMES = {'http': 'http:', 'https': 'https:'}
PAYLOAD = {'rule': 'current_rule', 'target': None, 'credentials': 'creds'}


def _fullmatch_of_body(t, e):
    """(pattern text, subject) when e is `<compiled P>.fullmatch(S) is not
    None` / `re.fullmatch(P, S) is not None` / bool(...) of either, with P a
    constant; else None"""
    x = e
    if isinstance(x, ast.Call) and U(x.func) == 'bool' and len(x.args) == 1:
        x = x.args[0]
    elif isinstance(x, ast.Compare) and len(x.ops) == 1 and isinstance(
            x.ops[0], ast.IsNot) and is_const(x.comparators[0], None):
        x = x.left
    else:
        return None
    if not (isinstance(x, ast.Call) and isinstance(x.func, ast.Attribute)
            and x.func.attr == 'fullmatch' and not x.keywords):
        return None
    recv = x.func.value
    if U(recv) == 're' and len(x.args) == 2 and is_const(x.args[0]) and \
            isinstance(x.args[0].value, str):
        return x.args[0].value, x.args[1]
    mod = t.module_of(None)
    comp = recv
    if isinstance(recv, (ast.Name, ast.Attribute)):
        try:
            d = t.prog.resolve(mod, recv)
        except Exception:
            d = None
        if d and '.' in d:
            m = t.prog.modules.get(d.rsplit('.', 1)[0])
            comp = m.assigns.get(d.rsplit('.', 1)[1]) if m else None
    if isinstance(comp, ast.Call) and U(comp.func) in (
            're.compile', 'compile') and len(comp.args) == 1 and \
            not comp.keywords and is_const(comp.args[0]) and isinstance(
                comp.args[0].value, str) and len(x.args) == 1:
        return comp.args[0].value, x.args[0]
    return None


def _quoted_true_pattern(pat):
    """the regular expression is exactly `"*True"*`"""
    import re._parser as sp
    import re._constants as sc
    try:
        items = list(sp.parse(pat))
    except Exception:
        return False

    def quotes(it):
        op, av = it
        if op not in (sc.MAX_REPEAT, sc.MIN_REPEAT):
            return False
        lo, hi, sub = av
        sub = list(sub)
        return lo == 0 and hi == sc.MAXREPEAT and len(sub) == 1 and \
            sub[0] == (sc.LITERAL, ord('"'))
    return len(items) == 6 and quotes(items[0]) and quotes(items[5]) and \
        [it for it in items[1:5]] == [(sc.LITERAL, ord(c)) for c in 'True']


def decision_shape(t, e):
    """(ok, detail, canonical text) for a returned decision expression."""
    e = t.expand(e)
    fm = _fullmatch_of_body(t, e)
    if fm is not None:
        pat, subj = fm
        if not (isinstance(subj, ast.Attribute) and subj.attr == 'text'):
            return False, 'what is matched is not the reply body (.text)', \
                U(e)
        if _quoted_true_pattern(pat):
            return True, 'reply body fully matches `"*True"*`: any number ' \
                "of double quotes around exactly 'True'", 'quoted'
        raise AnalysisError(
            'the reply is decided by the regular expression %r: whether '
            'that accepts exactly the bodies `"*True"*` is not decided '
            'here' % pat)
    e = t.expand(e)
    if not (isinstance(e, ast.Compare) and len(e.ops) == 1
            and isinstance(e.ops[0], ast.Eq)):
        if isinstance(e, ast.Compare) and isinstance(e.ops[0], ast.In):
            return False, 'substring/membership test instead of equality', \
                U(e)
        return False, 'result is not an equality with the constant ' \
            "'True'", U(e)
    a, b = e.left, e.comparators[0]
    if is_const(b, 'True'):
        side = a
    elif is_const(a, 'True'):
        side = b
    else:
        return False, "the reply is not compared with exactly 'True'", U(e)
    chain = []
    for _ in range(8):
        mc = method_call(side)
        if mc and mc[1] in ('strip', 'lstrip', 'rstrip') and isinstance(
                side, ast.Call):
            if len(side.args) != 1 or not is_const(side.args[0], '"'):
                return False, 'the reply is stripped of %s, not only of ' \
                    'double quotes' % (U(side.args[0]) if side.args
                                       else 'whitespace'), U(e)
            chain.append(mc[1])
            side = mc[0]
            continue
        if mc and isinstance(side, ast.Call):
            return False, 'the reply is transformed by .%s()' % mc[1], U(e)
        break
    if not (isinstance(side, ast.Attribute) and side.attr == 'text'):
        return False, 'what is compared is not the reply body (.text)', U(e)
    canon = 'text' + ''.join('.' + c for c in sorted(set(
        'strip' if c == 'strip' else c for c in chain)))
    both = 'strip' in chain or ('lstrip' in chain and 'rstrip' in chain)
    if chain and not both:
        return False, 'quotes are stripped on one side only', U(e)
    return True, "reply body, stripped only of double quotes, == 'True'", \
        'quoted' if chain else 'bare'


def _option_read(fns, opt):
    return any(isinstance(n, ast.Attribute) and n.attr == opt
               for g in fns for n in ast.walk(g.node))


def class_functions(prog, f):
    """__call__ plus the helpers of the remote-check module it reaches."""
    fns = [f]
    for q, g in prog.region(f).items():
        if g.module.name == EXT and g is not f and g.name != '__init__':
            fns.append(g)
    return fns


def check_class(ctx, name, cq):
    prog = ctx.prog
    f = prog.find_method(cq, '__call__')
    if f is None:
        raise AnalysisError('%s has no __call__' % cq)
    prm = f.params
    target_p, creds_p, enf_p = prm[1], prm[2], prm[3]
    # methods the class shares with a base are analysed for this class:
    # self.<constant> and self.<method>() resolve from `cq` downwards
    old_hint = getattr(prog, '_self_cls_hint', None)
    prog._self_cls_hint = cq
    saved_callees = dict(prog._callees)
    prog._callees.clear()
    try:
        fns = class_functions(prog, f)
    finally:
        prog._self_cls_hint = old_hint
        prog._callees.clear()
        prog._callees.update(saved_callees)
    helper_quals = {g.qual for g in fns if g is not f}

    def inline(call, frame):
        g = prog.callee_of(frame, call)
        if g is None or g.qual not in helper_quals:
            return None
        return g
    t = Table(prog, f, inline=inline if helper_quals else None,
              max_paths=200000, self_cls=cq)
    F = ctx.where(f.module, f.node).split(':')[0]
    seen = set()
    canon = set()
    n_ret = 0
    for p in t.paths:
        if p.outcome.kind == 'return':
            n_ret += 1
            if p.outcome.expr is None:
                ok, detail, c = False, 'returns None', 'None'
            else:
                ok, detail, c = decision_shape(t, p.outcome.expr)
            canon.add(c)
            key = (p.outcome.line, ok, detail)
            if key not in seen:
                seen.add(key)
                ctx.ob('C16.DECIDE', ok, '%s:%d' % (F, p.outcome.line),
                       f.qual, 'decision ' + U(t.expand(
                           p.outcome.expr))[:80]
                       if p.outcome.expr is not None else 'decision None',
                       detail if ok else
                       'the remote check does not decide by `reply body '
                       "without surrounding double quotes == 'True'`: "
                       + detail)
        elif p.outcome.kind == 'end':
            key = ('end', p.outcome.line)
            if key not in seen:
                seen.add(key)
                ctx.ob('C16.NO-ALLOW-ON-ERROR', False, '%s:%d' % (
                    F, p.outcome.line), f.qual, 'falls through',
                    'a path of the remote check ends without a decision or '
                    'an exception (path: %s)' % p.cond_text()[-200:])
    ctx.count(len(t.paths))
    ctx.floor('C16.DECIDE', n_ret, 1, 'decision returns')
    # handlers raise (in __call__ and in its helpers)
    for g in fns:
        for n in walk_no_nested(g.node):
            if isinstance(n, ast.Try):
                for h in n.handlers:
                    last = h.body[-1] if h.body else None
                    ok = isinstance(last, ast.Raise) and not any(
                        isinstance(x, ast.Return) for x in ast.walk(h))
                    ctx.ob('C16.NO-ALLOW-ON-ERROR', ok,
                           ctx.where(g.module, h), g.qual,
                           'except %s' % (U(h.type) if h.type else ''),
                           'a failed request raises' if ok else
                           'a timeout/transport failure is turned into a '
                           'decision (or a returned value) instead of '
                           'raising')
    # the request, as seen at the requests.post call with helpers inlined
    n_post = 0
    seen_post = set()
    payload_fn = None
    for g in fns:
        if g is not f and any(
                isinstance(r.value, ast.Tuple) and len(r.value.elts) == 2
                for r in ast.walk(g.node) if isinstance(r, ast.Return)
                and r.value is not None):
            payload_fn = g
    for p in t.paths:
        for e in p.events:
            if e.kind != 'call' or prog.resolve(
                    t.module_of(e.frame), e.node.func) != \
                    'ext:requests.post':
                continue
            c = e.node
            url = c.args[0] if c.args else kwarg(c, 'url')
            ux = t.expand(url) if url is not None else None
            dk, jk, tk = kwarg(c, 'data'), kwarg(c, 'json'), kwarg(
                c, 'timeout')
            dx = t.expand(dk) if dk is not None else None
            jx = t.expand(jk) if jk is not None else None
            tx = t.expand(tk) if tk is not None else None
            key = (e.line, U(ux) if ux is not None else None,
                   U(dx)[:40] if dx is not None else None,
                   U(jx)[:40] if jx is not None else None)
            if key in seen_post:
                continue
            seen_post.add(key)
            n_post += 1
            where = '%s:%d' % (F, e.line)
            ok = False
            if isinstance(ux, ast.BinOp) and isinstance(
                    ux.op, ast.Mod) and U(ux.right) == target_p:
                # the template: scheme prefix followed by self.match, however
                # the two are concatenated (+, f-string, format, %)
                from ..strshape import segments, merge, Lit, Hole, Unknown
                try:
                    sg = merge(segments(ux.left))
                except Unknown:
                    sg = []
                ok = len(sg) == 2 and isinstance(sg[0], Lit) and \
                    sg[0].text == SCHEMES[name] and isinstance(
                        sg[1], Hole) and sg[1].source == 'self.match'
            ctx.ob('C16.URL', ok, where, f.qual,
                   'url ' + (U(ux)[:60] if ux is not None else 'missing'),
                   "the request goes to ('%s' + match) %% target"
                   % SCHEMES[name] if ok else
                   'the request URL is not (%r + self.match) %% target'
                   % SCHEMES[name])
            # exactly one of data / json carries the payload
            form = [cnd for cnd in p.conds[:e.nconds] if cnd.kind == 'test'
                    and 'remote_content_type' in U(cnd.expr)]
            if not form:
                if _option_read(fns, 'remote_content_type'):
                    # the option is consulted, but not in a test on the way
                    # to the request (a table lookup, a computed encoder)
                    raise AnalysisError(
                        'the request of %s is encoded after consulting '
                        'remote_content_type, but not by a test on the path '
                        'to requests.post: which encoding goes with which '
                        'value is not one of the shapes this analysis reads'
                        % f.qual)
                ctx.ob('C16.PAYLOAD', False, where, f.qual,
                       'encoding choice', 'the encoding of the request is '
                       'not chosen by option remote_content_type')
                continue
            is_form = form[0].pol == ('x-www-form-urlencoded'
                                      in U(form[0].expr))
            used, other = (dx, jx) if is_form else (jx, dx)
            okp, detail = payload_ok(t, used, other, is_form, prm)
            ctx.ob('C16.PAYLOAD', okp, where, f.qual,
                   '%s payload %s' % ('form' if is_form else 'json',
                                      U(used)[:70] if used is not None
                                      else None),
                   'carries rule <- policy name, target <- copied target, '
                   'credentials <- creds, passed as %s=' % (
                       'data' if is_form else 'json') if okp else
                   'the %s request payload is wrong: %s' % (
                       'form' if is_form else 'json', detail))
            okt = tx is not None and 'remote_timeout' in U(tx)
            ctx.ob('C16.PAYLOAD', okt, where, f.qual,
                   'timeout=' + (U(tx)[:50] if tx is not None else 'none'),
                   'the configured remote_timeout applies' if okt else
                   'the request is not made with the configured '
                   'remote_timeout')
    ctx.floor('C16.URL', n_post, 1, 'requests.post calls')
    return f, canon, payload_fn, fns


def payload_ok(t, used, other, is_form, prm):
    """(ok, detail) for the payload mapping sent with the request."""
    if not isinstance(used, ast.Dict):
        return False, 'payload is %s' % (U(used)[:60] if used is not None
                                         else None)
    if not (other is None or is_const(other, None)):
        return False, 'both data= and json= carry a payload'
    keys = {k.value: v for k, v in zip(used.keys, used.values)
            if isinstance(k, ast.Constant)}
    if set(keys) != set(PAYLOAD):
        return False, 'payload keys %s' % sorted(keys)
    want = {'rule': prm[4] if len(prm) > 4 else 'current_rule',
            'credentials': prm[2]}
    for k in PAYLOAD:
        v = keys[k]
        if is_form:
            if not (isinstance(v, ast.Call) and U(v.func).endswith('dumps')
                    and v.args):
                return False, '%s is not JSON-encoded in the form payload' \
                    % k
            v = v.args[0]
        vx = t.expand(v)
        if k in want:
            if U(vx) != want[k]:
                return False, '%s <- %s (expected %s)' % (k, U(vx)[:40],
                                                          want[k])
        else:
            if not (isinstance(vx, ast.Call) and U(vx.func) ==
                    'copy.deepcopy' and U(vx.args[0]) == prm[1]):
                return False, 'target <- %s (expected a deep copy of the ' \
                    'target)' % U(vx)[:40]
    return True, ''


def check_payload_builder(ctx, g):
    prog = ctx.prog
    t = Table(prog, g)
    W = ctx.where(g.module, g.node)
    gp = g.params
    n = 0
    for p in t.paths:
        if p.outcome.kind != 'return' or p.outcome.expr is None:
            continue
        e = t.expand(p.outcome.expr)
        if not (isinstance(e, ast.Tuple) and len(e.elts) == 2):
            ctx.ob('C16.PAYLOAD', False, W, g.qual, U(e)[:60],
                   'the payload builder does not return (data, json)')
            continue
        form = [c for c in p.conds if c.kind == 'test' and
                'remote_content_type' in U(c.expr)]
        if not form:
            if not _option_read([g], 'remote_content_type'):
                # a builder of one fixed encoding, chosen by its caller
                continue
            ctx.ob('C16.PAYLOAD', False, W, g.qual, 'encoding choice',
                   'the encoding is not chosen by option '
                   'remote_content_type')
            continue
        is_form = form[0].pol == ('x-www-form-urlencoded' in U(form[0].expr))
        d, j = e.elts
        used, other = (d, j) if is_form else (j, d)
        n += 1
        ok = isinstance(used, ast.Dict) and is_const(other, None)
        detail = ''
        if ok:
            keys = {k.value: v for k, v in zip(used.keys, used.values)
                    if isinstance(k, ast.Constant)}
            if set(keys) != set(PAYLOAD):
                ok = False
                detail = 'payload keys %s' % sorted(keys)
            else:
                for k, src in PAYLOAD.items():
                    v = keys[k]
                    if is_form:
                        if not (isinstance(v, ast.Call) and U(
                                v.func).endswith('dumps') and v.args):
                            ok = False
                            detail = '%s is not JSON-encoded in the form ' \
                                     'payload' % k
                            continue
                        v = v.args[0]
                    vx = t.expand(v)
                    if src is not None:
                        if U(vx) != src:
                            ok = False
                            detail = '%s <- %s (expected %s)' % (k, U(vx),
                                                                 src)
                    else:
                        # the copied target
                        if not (isinstance(vx, ast.Call) and U(
                                vx.func) == 'copy.deepcopy' and U(
                                    vx.args[0]) == 'target'):
                            ok = False
                            detail = 'target <- %s (expected a deep copy ' \
                                     'of the target)' % U(vx)
        ctx.ob('C16.PAYLOAD', ok, W, g.qual,
               '%s payload' % ('form' if is_form else 'json'),
               'carries rule <- policy name, target <- copied target, '
               'credentials <- creds' if ok else
               'the %s payload is wrong: %s' % (
                   'form' if is_form else 'json', detail or U(used)[:80]))
    ctx.floor('C16.PAYLOAD', n, 2, 'payload encodings')
    # the complete target: the only values replaced on the copy are bare
    # object() sentinels (`type(v) is object`) - a test by isinstance cannot
    # single those out (everything is an instance of object; a white list
    # of JSON types blanks what the serializer can carry: dates, UUIDs,
    # Decimals, sets)
    seen_b = set()
    for p in t.paths:
        for ev in p.events:
            if not (ev.kind == 'store' and isinstance(
                    ev.node, ast.Subscript)):
                continue
            base = t.expand(ev.node.value)
            if not (isinstance(base, ast.Call) and U(
                    base.func) == 'copy.deepcopy'):
                continue
            guards = [c for c in p.conds[:ev.nconds] if c.kind == 'test'
                      and c.pol and ('type(' in U(t.expand(c.expr))
                                     or 'isinstance(' in U(t.expand(c.expr))
                                     or '__class__' in U(t.expand(c.expr)))]
            neg = [c for c in p.conds[:ev.nconds] if c.kind == 'test'
                   and not c.pol and 'isinstance(' in U(t.expand(c.expr))]
            exact = any(U(t.expand(c.expr)).replace(' ', '') .endswith(
                ('isobject', '==object')) and 'isinstance' not in U(
                    t.expand(c.expr)) for c in guards)
            by_inst = neg or any('isinstance(' in U(t.expand(c.expr))
                                 for c in guards)
            if not exact and not by_inst:
                # keys selected beforehand by a comprehension with the test
                for c in p.conds[:ev.nconds]:
                    it = t.expand(c.expr) if c.kind == 'loop' else None
                    if isinstance(it, (ast.ListComp, ast.GeneratorExp,
                                       ast.SetComp)):
                        for g_ in it.generators:
                            for cnd in g_.ifs:
                                tx = U(cnd).replace(' ', '')
                                if 'isinstance(' in tx:
                                    by_inst = True
                                elif tx.endswith(('isobject', '==object')):
                                    exact = True
            key = (ev.line, exact, bool(by_inst))
            if key in seen_b:
                continue
            seen_b.add(key)
            if exact:
                ctx.ob('C16.PAYLOAD', True, '%s:%d' % (
                    W.split(':')[0], ev.line), g.qual,
                    'blanked on the copy: bare object() values',
                    'only sentinels that no encoder can carry are replaced')
            elif by_inst:
                ctx.ob('C16.PAYLOAD', False, '%s:%d' % (
                    W.split(':')[0], ev.line), g.qual,
                    'blanked on the copy: %s' % U(t.expand(
                        (neg or guards)[0].expr))[:60],
                    'target values are replaced by {} on an isinstance '
                    'test: values the form encoder serialises (dates, '
                    'UUIDs, Decimals, sets, bytes) no longer reach the '
                    'remote server - the request does not carry the '
                    'complete target')
            else:
                raise AnalysisError(
                    'the payload builder replaces target values on the copy '
                    'under a condition the analysis does not read (line %d)'
                    % ev.line)


def check_target_ro(ctx, fns):
    n = 0
    for f in fns:
        tp = 'target'
        for e in effects_of(f):
            n += 1
            root = e.path.split('.')[0].split('[')[0]
            if root == tp:
                ctx.ob('C16.TARGET-RO', False, ctx.where(f.module, e.node),
                       f.qual, U(e.node)[:80],
                       'the caller\'s target mapping is modified by the '
                       'remote check')
    if not any(o['rule'] == 'C16.TARGET-RO' for o in ctx.obligations):
        ctx.ob('C16.TARGET-RO', True, ctx.where(fns[0].module, fns[0].node),
               fns[0].qual, '%d effects in %d functions' % (n, len(fns)),
               'no store or mutator call goes through the target parameter '
               '(opaque values are blanked on a deep copy)')


def check_tls_files(ctx, cq):
    """Each configured TLS file is checked on its own: a missing or
    unreadable file raises whatever the other file options are set to (a
    key file without a certificate file included) - the request is not made
    with a file the operator named and the process cannot use."""
    import re
    prog = ctx.prog
    f = prog.find_method(cq, '__call__')
    old_hint = getattr(prog, '_self_cls_hint', None)
    prog._self_cls_hint = cq
    saved_callees = dict(prog._callees)
    prog._callees.clear()
    try:
        fns = class_functions(prog, f)
    finally:
        prog._self_cls_hint = old_hint
        prog._callees.clear()
        prog._callees.update(saved_callees)
    hq = {g.qual for g in fns if g is not f}

    def inline(call, frame):
        g = prog.callee_of(frame, call)
        return g if g is not None and g.qual in hq else None
    t = Table(prog, f, inline=inline if hq else None, max_paths=200000,
              self_cls=cq)
    F = ctx.where(f.module, f.node).split(':')[0]
    FILE = re.compile(r'remote_ssl_\w*file')
    # per raise site: the conditions *every* path to it has established
    # (those dominate it; what merely happened earlier on one path does not)
    sites = {}
    for p in t.paths:
        if p.outcome.kind != 'raise' or any(c.kind == 'exc'
                                            for c in p.conds):
            continue
        tests = [(U(t.expand(c.expr)), c.pol) for c in p.conds
                 if c.kind == 'test']
        probes = [x for x, _pol in tests if 'os.path.exists(' in x
                  or 'os.access(' in x]
        if not probes:
            continue
        subj = set(FILE.findall(probes[-1]))
        if len(subj) != 1:
            continue
        key = (p.outcome.line, sorted(subj)[0])
        cs = set(tests)
        sites[key] = cs if key not in sites else (sites[key] & cs)
    n = len(sites)
    for (line, subj), dom in sorted(sites.items()):
        others = sorted({m for x, _pol in dom for m in FILE.findall(x)}
                        - {subj})
        ctx.ob('C16.TLS-FILES', not others, '%s:%d' % (F, line), f.qual,
               'pre-check of %s' % subj,
               'depends on that option alone' if not others else
               'the pre-check of %s is made only under a condition on %s: '
               'with that one unset, a missing or unreadable %s is handed '
               'to the request instead of being refused' % (
                   subj, ', '.join(others), subj))
    ctx.floor('C16.TLS-FILES', n, 2, 'TLS file pre-check raises')


def check_error_passage(ctx, classes):
    """A timeout or transport failure raises out of the enforcement call:
    between the remote check and the caller, the combinators and the adapter
    that evaluate it (and, or, not, rule:) catch nothing that such a failure
    is - RuntimeError, the I/O errors of the transport, or Exception at
    large.  A handler there turns the failure into a denial, and under a
    `not` into an allow."""
    prog = ctx.prog
    from .. import grammar as G
    region = {}
    for q in G.check_classes(prog):
        if q in classes.values():
            continue
        call = prog.find_method(q, '__call__')
        if call is not None and call.module.name == CHECKS:
            region.update({k: v for k, v in prog.region(call).items()
                           if v.module.name == CHECKS})
    adapter = prog.functions.get(CHECKS + '._check')
    if adapter is not None:
        region[adapter.qual] = adapter
    wide = {'builtin:RuntimeError', 'builtin:Exception',
            'builtin:BaseException', 'builtin:OSError', 'builtin:IOError',
            'builtin:EnvironmentError', 'builtin:RecursionError'}
    wide.discard('builtin:RecursionError')
    n = 0
    bad = 0
    for q, f in sorted(region.items()):
        for t in walk_no_nested(f.node):
            if not isinstance(t, ast.Try):
                continue
            # only handlers around the evaluation of another check
            calls_check = any(
                isinstance(c, ast.Call) and (prog.callee_of(f, c) is adapter
                                             or U(c.func) in ('rule',
                                                              'self.rule'))
                for b in t.body for c in ast.walk(b))
            if not calls_check:
                continue
            for h in t.handlers:
                n += 1
                names = ['builtin:BaseException'] if h.type is None else [
                    prog.resolve(f.module, x) for x in (
                        h.type.elts if isinstance(h.type, ast.Tuple)
                        else [h.type])]
                hit = sorted(x for x in names if x in wide)
                if hit:
                    bad += 1
                    ctx.ob('C16.NO-ALLOW-ON-ERROR', False,
                           ctx.where(f.module, h), f.qual,
                           'except %s around a nested evaluation' % U(
                               h.type) if h.type is not None else
                           'bare except around a nested evaluation',
                           'the handler catches %s: a timeout or transport '
                           'failure of a remote check evaluated below is '
                           'swallowed here and answered as a denial (an '
                           'allow under `not`) instead of raising' % [
                               x.split(':')[-1] for x in hit])
    if not bad:
        ctx.ob('C16.NO-ALLOW-ON-ERROR', True, ctx.where(
            prog.module(CHECKS), prog.module(CHECKS).tree), CHECKS,
            '%d handlers around nested evaluations' % n,
            'none of them catches what a failing remote check raises')


def check_visible_signature(ctx, classes):
    """The adapter decides whether to hand a check the policy name by the
    named parameters of its __call__ as inspect.getfullargspec reports
    them.  A decorator of the program whose wrapper takes (*args, **kwargs)
    hides them (getfullargspec does not follow __wrapped__): the remote
    check is then called without the name and posts `rule: null`."""
    prog = ctx.prog
    for name, cq in sorted(classes.items()):
        f = prog.find_method(cq, '__call__')
        w = None
        decs = [d for d in f.node.decorator_list if isinstance(
            d, (ast.Name, ast.Attribute))]
        for d in decs:
            dq = prog.resolve(f.module, d)
            df = prog.functions.get(dq) if isinstance(dq, str) else None
            if df is None:
                continue
            inner = [n for n in df.node.body if isinstance(
                n, ast.FunctionDef)]
            rets = [n for n in df.node.body if isinstance(n, ast.Return)]
            if len(inner) == 1 and len(rets) == 1 and isinstance(
                    rets[0].value, ast.Name) and rets[0].value.id == \
                    inner[0].name:
                w = inner[0]
        a = (w if w is not None else f.node).args
        named = [x.arg for x in a.posonlyargs + a.args]
        ok = len(named) >= 5 or (w is None and len(f.params) >= 5)
        ctx.ob('C16.NAME', ok, ctx.where(f.module, f.node), f.qual,
               '__call__ as the adapter sees it: (%s)' % ', '.join(
                   named + (['*' + a.vararg.arg] if a.vararg else [])),
               'takes the policy name as its fifth named parameter' if ok
               else 'the decorator %s wraps __call__ in a function with the '
               'parameters (%s): inspect.getfullargspec sees no fifth named '
               'parameter, the adapter leaves out the policy name and the '
               'request carries `rule: null`' % (
                   U(f.node.decorator_list[0]) if f.node.decorator_list
                   else '?', ', '.join(named) or '*args, **kwargs'))


def check(ctx):
    prog = ctx.prog
    ctx.use(EXT, CHECKS)
    ctx.explain('C16: both entry-point classes are analysed path by path: '
                'the decision expression (sibling agreement), handlers that '
                'must raise, the URL, the payload builder under both '
                'encodings, read-only use of the target and the entry-point '
                'table.')
    ctx.assume('requests / contextlib.closing behave as documented')
    classes = {}
    for name in ('http', 'https'):
        cq = prog.entry_point_class('oslo.policy.rule_checks', name)
        ok = cq is not None and cq in prog.classes and prog.is_subclass(
            cq, CHECKS + '.Check')
        ctx.ob('C16.ENTRY', bool(ok), 'setup.cfg:1', 'setup.cfg',
               'entry point %s = %s' % (name, cq),
               'maps to a check class of the package' if ok else
               'the %s rule check is not registered to a check class' % name)
        if ok:
            classes[name] = cq
    if len(classes) < 2:
        raise AnalysisError('remote check entry points missing')
    canons = {}
    fns = []
    payload_fn = None
    for name, cq in classes.items():
        f, canon, pf, cfns = check_class(ctx, name, cq)
        canons[name] = canon
        for g in cfns:
            if g not in fns:
                fns.append(g)
        payload_fn = payload_fn or pf
    ok = canons['http'] == canons['https']
    ctx.ob('C16.DECIDE', ok, ctx.where(fns[1].module, fns[1].node),
           fns[1].qual, 'sibling agreement http/https',
           'both classes decide by the same expression' if ok else
           'the http and https checks decide differently: %s vs %s' % (
               sorted(canons['http']), sorted(canons['https'])))
    check_tls_files(ctx, classes['https'])
    if payload_fn is not None:
        check_payload_builder(ctx, payload_fn)
    check_target_ro(ctx, fns)
    # C16.NAME = C06.PASS-THROUGH
    from . import c06
    before, nob = len(ctx.findings), len(ctx.obligations)
    c06.check_pass_through(ctx)
    for fd in ctx.findings[before:]:
        fd.rule = 'C16.NAME'
    for o in ctx.obligations[nob:]:
        o['rule'] = 'C16.NAME'
    before, nob = len(ctx.findings), len(ctx.obligations)
    c06.check_adapter(ctx)
    for fd in ctx.findings[before:]:
        fd.rule = 'C16.NAME(' + fd.rule + ')'
    for o in ctx.obligations[nob:]:
        o['rule'] = 'C16.NAME(' + o['rule'] + ')'
    check_error_passage(ctx, classes)
    check_visible_signature(ctx, classes)
    # remote_* options exist
    opts = prog.options()
    # the encoding is picked by comparing the option's value with one of
    # its choices: the option has to hand the choice back as it is spelled
    # there (ignore_case=True accepts other spellings and returns them
    # unchanged, and an `==` against the lower-case literal then fails)
    oc = opts.get('remote_content_type')
    if oc is not None:
        ic = kwarg(oc['node'], 'ignore_case')
        loose = ic is not None and not is_const(ic, False)
        if loose:
            cmps = [c for m in prog.modules.values() for c in ast.walk(m.tree)
                    if isinstance(c, ast.Compare)
                    and 'remote_content_type' in U(c)]
            if cmps and all('.lower()' in U(c) or '.casefold()' in U(c)
                            for c in cmps):
                loose = False       # compared without regard to case
        ctx.ob('C16.PAYLOAD', not loose, ctx.where(
            prog.module(PKG + '.opts'), oc['node']), PKG + '.opts._options',
            'option remote_content_type ignore_case=%s' % (
                U(ic) if ic is not None else 'default'),
            'the configured value is one of the declared choices, spelled '
            'as declared' if not loose else
            'the option accepts its choices in any letter case and returns '
            'the operator\'s spelling: `Application/X-WWW-Form-Urlencoded` '
            'is accepted, compares unequal to the declared choice, and the '
            'request goes out JSON-encoded although form encoding was '
            'configured')
    for o in ('remote_content_type', 'remote_timeout'):
        ctx.ob('C16.ENTRY', o in opts, 'oslo_policy/opts.py:1',
               PKG + '.opts._options', 'option ' + o, 'declared'
               if o in opts else 'option %s vanished' % o)

"""C16 - a remote http(s) check allows only on an explicit True from the
server (necessary conditions on the two entry-point classes)."""
import ast

from .. import PKG
from ..dte import Table
from ..effects import effects_of
from ..model import AnalysisError
from ..util import (U, is_const, method_call, kwarg, walk_no_nested,
                    handler_names)

EXT = PKG + '._external'
CHECKS = PKG + '._checks'
SCHEMES = {'http': 'http:', 'https': 'https:'}
PAYLOAD = {'rule': 'current_rule', 'target': None, 'credentials': 'creds'}


def decision_shape(t, e):
    """(ok, detail, canonical text) for a returned decision expression."""
    e = t.expand(e)
    if not (isinstance(e, ast.Compare) and len(e.ops) == 1
            and isinstance(e.ops[0], ast.Eq)):
        if isinstance(e, ast.Compare) and isinstance(e.ops[0], ast.In):
            return False, 'substring/membership test instead of equality', \
                U(e)
        return False, 'result is not an equality with the constant ' \
            "'True'", U(e)
    a, b = e.left, e.comparators[0]
    if is_const(b, 'True'):
        side = a
    elif is_const(a, 'True'):
        side = b
    else:
        return False, "the reply is not compared with exactly 'True'", U(e)
    chain = []
    for _ in range(8):
        mc = method_call(side)
        if mc and mc[1] in ('strip', 'lstrip', 'rstrip') and isinstance(
                side, ast.Call):
            if len(side.args) != 1 or not is_const(side.args[0], '"'):
                return False, 'the reply is stripped of %s, not only of ' \
                    'double quotes' % (U(side.args[0]) if side.args
                                       else 'whitespace'), U(e)
            chain.append(mc[1])
            side = mc[0]
            continue
        if mc and isinstance(side, ast.Call):
            return False, 'the reply is transformed by .%s()' % mc[1], U(e)
        break
    if not (isinstance(side, ast.Attribute) and side.attr == 'text'):
        return False, 'what is compared is not the reply body (.text)', U(e)
    canon = 'text' + ''.join('.' + c for c in sorted(set(
        'strip' if c == 'strip' else c for c in chain)))
    both = 'strip' in chain or ('lstrip' in chain and 'rstrip' in chain)
    if chain and not both:
        return False, 'quotes are stripped on one side only', U(e)
    return True, "reply body, stripped only of double quotes, == 'True'", \
        'quoted' if chain else 'bare'


def check_class(ctx, name, cq):
    prog = ctx.prog
    f = prog.find_method(cq, '__call__')
    if f is None:
        raise AnalysisError('%s has no __call__' % cq)
    prm = f.params
    target_p, creds_p, enf_p = prm[1], prm[2], prm[3]
    t = Table(prog, f, max_paths=100000)
    F = ctx.where(f.module, f.node).split(':')[0]
    seen = set()
    canon = set()
    n_ret = 0
    for p in t.paths:
        if p.outcome.kind == 'return':
            n_ret += 1
            if p.outcome.expr is None:
                ok, detail, c = False, 'returns None', 'None'
            else:
                ok, detail, c = decision_shape(t, p.outcome.expr)
            canon.add(c)
            key = (p.outcome.line, ok, detail)
            if key not in seen:
                seen.add(key)
                ctx.ob('C16.DECIDE', ok, '%s:%d' % (F, p.outcome.line),
                       f.qual, 'decision ' + p.outcome.text()[:80],
                       detail if ok else
                       'the remote check does not decide by `reply body '
                       "without surrounding double quotes == 'True'`: "
                       + detail)
        elif p.outcome.kind == 'end':
            key = ('end', p.outcome.line)
            if key not in seen:
                seen.add(key)
                ctx.ob('C16.NO-ALLOW-ON-ERROR', False, '%s:%d' % (
                    F, p.outcome.line), f.qual, 'falls through',
                    'a path of the remote check ends without a decision or '
                    'an exception (path: %s)' % p.cond_text()[-200:])
    ctx.count(len(t.paths))
    ctx.floor('C16.DECIDE', n_ret, 1, 'decision returns')
    # handlers raise
    nh = 0
    for n in walk_no_nested(f.node):
        if isinstance(n, ast.Try):
            for h in n.handlers:
                nh += 1
                last = h.body[-1] if h.body else None
                ok = isinstance(last, ast.Raise) and not any(
                    isinstance(x, ast.Return) for x in ast.walk(h))
                ctx.ob('C16.NO-ALLOW-ON-ERROR', ok, ctx.where(f.module, h),
                       f.qual, 'except %s' % (U(h.type) if h.type else ''),
                       'a failed request raises' if ok else
                       'a timeout/transport failure is turned into a '
                       'decision instead of raising')
    # the request
    posts = [c for c in ast.walk(f.node) if isinstance(c, ast.Call)
             and prog.resolve(f.module, c.func) == 'ext:requests.post']
    ctx.floor('C16.URL', len(posts), 1, 'requests.post calls')
    payload_fn = None
    for c in posts:
        url = c.args[0] if c.args else kwarg(c, 'url')
        ux = url
        # follow a local
        if isinstance(url, ast.Name):
            for a in walk_no_nested(f.node):
                if isinstance(a, ast.Assign) and U(a.targets[0]) == url.id:
                    ux = a.value
        ok = isinstance(ux, ast.BinOp) and isinstance(ux.op, ast.Mod) and \
            U(ux.right) == target_p and isinstance(ux.left, ast.BinOp) and \
            isinstance(ux.left.op, ast.Add) and is_const(
                ux.left.left, SCHEMES[name]) and U(
                    ux.left.right) == 'self.match'
        ctx.ob('C16.URL', ok, ctx.where(f.module, c), f.qual,
               'url ' + U(ux)[:60],
               "the request goes to ('%s' + match) %% target" % SCHEMES[name]
               if ok else 'the request URL is not (%r + self.match) %% '
               'target' % SCHEMES[name])
        # payload arguments come from the payload builder
        dk, jk, tk = kwarg(c, 'data'), kwarg(c, 'json'), kwarg(c, 'timeout')
        srcs = {}
        for a in walk_no_nested(f.node):
            if isinstance(a, ast.Assign) and isinstance(
                    a.targets[0], ast.Tuple) and isinstance(
                        a.value, ast.Call):
                g = prog.callee_of(f, a.value)
                if g is not None:
                    names = [U(x) for x in a.targets[0].elts]
                    srcs = {'names': names, 'call': a.value, 'fn': g}
        ok = dk is not None and jk is not None and srcs and [
            U(dk), U(jk)] == srcs['names']
        ctx.ob('C16.PAYLOAD', bool(ok), ctx.where(f.module, c), f.qual,
               'post(data=%s, json=%s)' % (U(dk) if dk is not None else None,
                                           U(jk) if jk is not None
                                           else None),
               'form and JSON payloads are passed as data= / json= '
               'respectively' if ok else
               'the payload builder\'s (data, json) pair is not passed as '
               'data= and json= in that order')
        if srcs:
            payload_fn = srcs['fn']
            pc = srcs['call']
            gp = payload_fn.params
            bound = dict(zip(gp, [U(a) for a in pc.args]))
            want = {'creds': creds_p, 'current_rule': prm[4] if len(prm) > 4
                    else None, 'enforcer': enf_p, 'target': target_p}
            okb = all(bound.get(k) == v for k, v in want.items())
            ctx.ob('C16.PAYLOAD', okb, ctx.where(f.module, pc), f.qual,
                   U(pc)[:80], 'the payload is built from this call\'s '
                   'credentials, policy name and target' if okb else
                   'the payload builder receives its arguments in the wrong '
                   'roles: %s' % bound)
        ok = tk is not None and 'remote_timeout' in U(t.expand(tk)) or (
            tk is not None and any(
                isinstance(a, ast.Assign) and U(a.targets[0]) == U(tk)
                and 'remote_timeout' in U(a.value)
                for a in walk_no_nested(f.node)))
        ctx.ob('C16.PAYLOAD', bool(ok), ctx.where(f.module, c), f.qual,
               'timeout=' + (U(tk) if tk is not None else 'none'),
               'the configured remote_timeout applies' if ok else
               'the request is not made with the configured remote_timeout')
    return f, canon, payload_fn


def check_payload_builder(ctx, g):
    prog = ctx.prog
    t = Table(prog, g)
    W = ctx.where(g.module, g.node)
    gp = g.params
    n = 0
    for p in t.paths:
        if p.outcome.kind != 'return' or p.outcome.expr is None:
            continue
        e = t.expand(p.outcome.expr)
        if not (isinstance(e, ast.Tuple) and len(e.elts) == 2):
            ctx.ob('C16.PAYLOAD', False, W, g.qual, U(e)[:60],
                   'the payload builder does not return (data, json)')
            continue
        form = [c for c in p.conds if c.kind == 'test' and
                'remote_content_type' in U(c.expr)]
        if not form:
            ctx.ob('C16.PAYLOAD', False, W, g.qual, 'encoding choice',
                   'the encoding is not chosen by option '
                   'remote_content_type')
            continue
        is_form = form[0].pol == ('x-www-form-urlencoded' in U(form[0].expr))
        d, j = e.elts
        used, other = (d, j) if is_form else (j, d)
        n += 1
        ok = isinstance(used, ast.Dict) and is_const(other, None)
        detail = ''
        if ok:
            keys = {k.value: v for k, v in zip(used.keys, used.values)
                    if isinstance(k, ast.Constant)}
            if set(keys) != set(PAYLOAD):
                ok = False
                detail = 'payload keys %s' % sorted(keys)
            else:
                for k, src in PAYLOAD.items():
                    v = keys[k]
                    if is_form:
                        if not (isinstance(v, ast.Call) and U(
                                v.func).endswith('dumps') and v.args):
                            ok = False
                            detail = '%s is not JSON-encoded in the form ' \
                                     'payload' % k
                            continue
                        v = v.args[0]
                    vx = t.expand(v)
                    if src is not None:
                        if U(vx) != src:
                            ok = False
                            detail = '%s <- %s (expected %s)' % (k, U(vx),
                                                                 src)
                    else:
                        # the copied target
                        if not (isinstance(vx, ast.Call) and U(
                                vx.func) == 'copy.deepcopy' and U(
                                    vx.args[0]) == 'target'):
                            ok = False
                            detail = 'target <- %s (expected a deep copy ' \
                                     'of the target)' % U(vx)
        ctx.ob('C16.PAYLOAD', ok, W, g.qual,
               '%s payload' % ('form' if is_form else 'json'),
               'carries rule <- policy name, target <- copied target, '
               'credentials <- creds' if ok else
               'the %s payload is wrong: %s' % (
                   'form' if is_form else 'json', detail or U(used)[:80]))
    ctx.floor('C16.PAYLOAD', n, 2, 'payload encodings')


def check_target_ro(ctx, fns):
    n = 0
    for f in fns:
        tp = 'target'
        for e in effects_of(f):
            n += 1
            root = e.path.split('.')[0].split('[')[0]
            if root == tp:
                ctx.ob('C16.TARGET-RO', False, ctx.where(f.module, e.node),
                       f.qual, U(e.node)[:80],
                       'the caller\'s target mapping is modified by the '
                       'remote check')
    if not any(o['rule'] == 'C16.TARGET-RO' for o in ctx.obligations):
        ctx.ob('C16.TARGET-RO', True, ctx.where(fns[0].module, fns[0].node),
               fns[0].qual, '%d effects in %d functions' % (n, len(fns)),
               'no store or mutator call goes through the target parameter '
               '(opaque values are blanked on a deep copy)')


def check(ctx):
    prog = ctx.prog
    ctx.use(EXT, CHECKS)
    ctx.explain('C16: both entry-point classes are analysed path by path: '
                'the decision expression (sibling agreement), handlers that '
                'must raise, the URL, the payload builder under both '
                'encodings, read-only use of the target and the entry-point '
                'table.')
    ctx.assume('requests / contextlib.closing behave as documented')
    classes = {}
    for name in ('http', 'https'):
        cq = prog.entry_point_class('oslo.policy.rule_checks', name)
        ok = cq is not None and cq in prog.classes and prog.is_subclass(
            cq, CHECKS + '.Check')
        ctx.ob('C16.ENTRY', bool(ok), 'setup.cfg:1', 'setup.cfg',
               'entry point %s = %s' % (name, cq),
               'maps to a check class of the package' if ok else
               'the %s rule check is not registered to a check class' % name)
        if ok:
            classes[name] = cq
    if len(classes) < 2:
        raise AnalysisError('remote check entry points missing')
    canons = {}
    fns = []
    payload_fn = None
    for name, cq in classes.items():
        f, canon, pf = check_class(ctx, name, cq)
        canons[name] = canon
        fns.append(f)
        payload_fn = payload_fn or pf
    ok = canons['http'] == canons['https']
    ctx.ob('C16.DECIDE', ok, ctx.where(fns[1].module, fns[1].node),
           fns[1].qual, 'sibling agreement http/https',
           'both classes decide by the same expression' if ok else
           'the http and https checks decide differently: %s vs %s' % (
               sorted(canons['http']), sorted(canons['https'])))
    if payload_fn is None:
        raise AnalysisError('payload builder not found')
    check_payload_builder(ctx, payload_fn)
    check_target_ro(ctx, fns + [payload_fn])
    # C16.NAME = C06.PASS-THROUGH
    from . import c06
    before, nob = len(ctx.findings), len(ctx.obligations)
    c06.check_pass_through(ctx)
    for fd in ctx.findings[before:]:
        fd.rule = 'C16.NAME'
    for o in ctx.obligations[nob:]:
        o['rule'] = 'C16.NAME'
    # remote_* options exist
    opts = prog.options()
    for o in ('remote_content_type', 'remote_timeout'):
        ctx.ob('C16.ENTRY', o in opts, 'oslo_policy/opts.py:1',
               PKG + '.opts._options', 'option ' + o, 'declared'
               if o in opts else 'option %s vanished' % o)

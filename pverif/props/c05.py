"""C05 - attribute checks compare a literal or credential path with the
target value (necessary conditions)."""
import ast

from .. import PKG
from .. import tokenizer as T
from ..dte import Table
from ..model import AnalysisError
from ..util import (U, is_const, method_call, kwarg, strip_not,
                    walk_no_nested)
from .c04 import substituted_match

CHECKS = PKG + '._checks'
PARSER = PKG + '._parser'


def eq_match_str(e, match_is, value_is):
    """e is  <match> == str(<value>)  (either order)"""
    if not (isinstance(e, ast.Compare) and len(e.ops) == 1
            and isinstance(e.ops[0], ast.Eq)):
        return False
    a, b = e.left, e.comparators[0]
    for x, y in ((a, b), (b, a)):
        if match_is(x) and isinstance(y, ast.Call) and U(y.func) == 'str' \
                and len(y.args) == 1 and value_is(y.args[0]):
            return True
    return False


def check_fallback(ctx):
    prog = ctx.prog
    reg = prog.registered_checks()
    gq = reg.get(None)
    where_mod = prog.module(CHECKS)
    ctx.ob('C05.FALLBACK', gq is not None, ctx.where(where_mod,
                                                     where_mod.tree),
           CHECKS + '.registered_checks', 'registration for kind None',
           'the generic class is registered as the default kind'
           if gq else 'no class is registered for kind None')
    if gq is None:
        raise AnalysisError('no generic check class')
    pc = prog.func(PARSER + '._parse_check')
    from .c01 import leaf_inline
    t = Table(prog, pc, inline=leaf_inline(prog))
    W = ctx.where(pc.module, pc.node)
    # split(':', 1)
    splits = [d for d in t.en.defs.values() if isinstance(d, ast.Call)
              and method_call(d, 'split') and U(method_call(d)[0]) ==
              pc.params[0]]
    ctx.floor('C05.FALLBACK', len(splits), 1, 'kind:match splits')
    for d in splits:
        sep = d.args[0] if d.args else None
        mx = kwarg(d, 'maxsplit', 1)
        ok = is_const(sep, ':') and is_const(mx, 1)
        ctx.ob('C05.FALLBACK', ok, ctx.where(pc.module, d), pc.qual, U(d),
               'kind and match are split at the first colon only' if ok else
               'the check text is not split exactly once at the first colon '
               '(a match containing a colon, e.g. a URL, is mis-parsed)')
    # registry order: ext -> registered -> None
    n = 0
    for p in t.paths:
        if p.outcome.kind != 'return' or p.outcome.expr is None:
            continue
        e = t.expand(p.outcome.expr)
        if isinstance(e, ast.Call) and isinstance(
                e.func, ast.Call) and method_call(e.func, 'get') and len(
                    e.func.args) == 1 and not e.func.keywords:
            # R.get(key)(...) on a path that excluded None: R[key](...)
            e = ast.Call(func=ast.Subscript(
                value=method_call(e.func)[0], slice=e.func.args[0],
                ctx=ast.Load()), args=e.args, keywords=e.keywords)
        if not (isinstance(e, ast.Call) and isinstance(e.func,
                                                       ast.Subscript)):
            continue
        from .c01 import const_class_table
        if const_class_table(prog, pc.module, e.func.value):
            continue            # '@' / '!' picked from a table (C01.CONST)
        n += 1
        reg_expr = e.func.value
        key = e.func.slice
        # constructor arguments are (kind, match) = split parts 0 and 1
        args_ok = len(e.args) == 2 and all(
            isinstance(a, ast.Subscript) and is_const(a.slice, i)
            and isinstance(a.value, ast.Call) and method_call(a.value,
                                                              'split')
            for i, a in enumerate(e.args))
        ctx.ob('C05.FALLBACK', args_ok, '%s:%d' % (W.split(':')[0],
                                                   p.outcome.line),
               pc.qual, 'construct ' + U(e),
               'the check class is constructed as (kind, match)' if args_ok
               else 'the check class is not constructed with (kind, match) '
               'in that order')
        if is_const(key, None):
            # reached only when the kind has no specific handler
            neg = [c for c in p.conds if c.kind == 'test' and not c.pol
                   and isinstance(c.expr, ast.Compare)
                   and isinstance(c.expr.ops[0], ast.In)
                   and isinstance(c.expr.left, ast.Subscript)]
            regs = set()
            # R.get(kind) is None: R has no handler for the kind either
            for c in p.conds:
                x = t.expand(c.expr) if c.kind == 'test' else None
                if isinstance(x, ast.Compare) and len(x.ops) == 1 and \
                        isinstance(x.ops[0], (ast.Is, ast.IsNot)) and \
                        is_const(x.comparators[0], None) and isinstance(
                            x.left, ast.Call) and method_call(
                                x.left, 'get') and len(x.left.args) == 1 \
                        and isinstance(x.left.args[0], ast.Subscript) and \
                        c.pol == isinstance(x.ops[0], ast.Is):
                    regs.add(U(method_call(x.left)[0]))
            # try: h = R[kind] / except KeyError: - the handler path says
            # R has no entry for the kind
            for c in p.conds:
                txt = str(getattr(c.expr, 'value', '')) if c.kind == 'exc' \
                    else ''
                if 'KeyError' not in txt or 'try@' not in txt:
                    continue
                try:
                    ln = int(txt.rsplit('try@', 1)[1].split()[0].rstrip(')'))
                except ValueError:
                    continue
                for tr in ast.walk(pc.node):
                    if isinstance(tr, ast.Try) and tr.lineno == ln and len(
                            tr.body) == 1 and isinstance(
                                tr.body[0], (ast.Assign, ast.Expr)) and \
                            isinstance(tr.body[0].value, ast.Subscript) and \
                            not is_const(tr.body[0].value.slice, None):
                        rv = tr.body[0].value.value
                        if isinstance(rv, ast.Name):
                            # a local alias of the registry
                            for a in ast.walk(pc.node):
                                if isinstance(a, ast.Assign) and len(
                                        a.targets) == 1 and U(
                                            a.targets[0]) == rv.id:
                                    rv = a.value
                                    break
                        regs.add(U(rv))
            for c in neg:
                r = t.expand(c.expr.comparators[0])
                if isinstance(r, ast.Call) and U(r.func).endswith(
                        'ChainMap') and r.args and not r.keywords:
                    # one mapping view over several registries
                    regs |= {U(a) for a in r.args}
                else:
                    regs.add(U(r))
            ok = len(regs) >= 2 and any(
                'registered_checks' in r for r in regs) and any(
                    'get_extensions(' in r for r in regs)
            ctx.ob('C05.FALLBACK', ok, '%s:%d' % (W.split(':')[0],
                                                  p.outcome.line), pc.qual,
                   'default-kind lookup after %s' % sorted(regs),
                   'the generic class is used only when neither an '
                   'extension nor a registered check handles the kind'
                   if ok else 'the generic class is consulted before the '
                   'specific handlers')
    ctx.floor('C05.FALLBACK', n, 1, 'registry constructions')
    return gq


def check_generic(ctx, gq):
    prog = ctx.prog
    f = prog.find_method(gq, '__call__')
    prm = f.params
    target_p, creds_p = prm[1], prm[2]
    # the credential walker: the self-recursive function of this module
    # reachable from the generic check's __call__
    walker = None
    for q, g in sorted(prog.region(f).items()):
        if g.module.name != CHECKS or g is f:
            continue
        if any(isinstance(c, ast.Call) and prog.callee_of(g, c) is g
               for c in ast.walk(g.node)):
            walker = g
    if walker is None:
        raise AnalysisError('generic check has no credential walker')
    if any(isinstance(n, (ast.Yield, ast.YieldFrom))
           for n in walk_no_nested(walker.node)):
        raise AnalysisError(
            'the credential walker %s is a recursive generator: the values '
            'it yields are matched by its consumer, a split the rules on '
            'the walk (base case, step, list fold) do not read'
            % walker.qual)

    from ..dte import inline_helpers
    t = Table(prog, f, inline=inline_helpers(
        prog, modules={CHECKS}, exclude={walker.qual, CHECKS + '._check'}),
        max_depth=4)
    W = ctx.where(f.module, f.node)
    is_match = lambda x: substituted_match(t, x, target_p)
    n_lit = n_walk = n_subst = 0
    unread = None
    for p in t.paths:
        where = '%s:%d' % (W.split(':')[0], p.outcome.line)
        excs = [c for c in p.conds if c.kind == 'exc']
        if p.outcome.kind != 'return' or p.outcome.expr is None:
            ctx.ob('C05.DENY', False, where, f.qual, p.outcome.text(),
                   'the generic check can raise / return None (path %s)'
                   % p.cond_text())
            continue
        e = t.expand(p.outcome.expr)
        if is_const(e):
            n_subst += 1
            # ... possibly after the literal attempt has failed as well
            ok = e.value is False and excs and any(
                'KeyError' in str(x.expr.value) for x in excs) and all(
                'KeyError' in str(x.expr.value) or any(
                    ev.kind == 'maycall' and isinstance(
                        ev.node, ast.Call) and prog.resolve(
                            f.module, ev.node.func) == 'ext:ast.literal_eval'
                    for ev in p.events) for x in excs)
            ctx.ob('C05.DENY', ok, where, f.qual,
                   '%s -> %s' % (p.cond_text(), U(e)),
                   'a missing target key denies' if ok else
                   'constant result %r on path %s' % (e.value,
                                                      p.cond_text()))
            continue
        has_lit = any(isinstance(x, ast.Call) and prog.resolve(
            f.module, x.func) == 'ext:ast.literal_eval' for x in ast.walk(e))
        if isinstance(e, ast.Call) and prog.callee_of(
                prog.functions.get(p.outcome.frame, f), e) is walker and \
                has_lit:
            # walker(<literal>, <empty path>, match): the walker's base case
            # (checked by C05.WALK) is `match == str(value)`
            wp = walker.params[1:] if walker.cls is not None \
                else walker.params
            bound = dict(zip(wp, e.args))
            for k in e.keywords:
                bound[k.arg] = k.value
            if len(wp) >= 3:
                root, segs, m = (bound.get(wp[0]), bound.get(wp[1]),
                                 bound.get(wp[2]))
                sx = t.expand(segs) if segs is not None else None
                rx = t.expand(root) if root is not None else None
                if isinstance(sx, (ast.Tuple, ast.List)) and not sx.elts \
                        and isinstance(rx, ast.Call) and prog.resolve(
                            f.module, rx.func) == 'ext:ast.literal_eval' \
                        and len(rx.args) == 1 and U(rx.args[0]) == \
                        'self.kind':
                    n_lit += 1
                    ok = m is not None and is_match(m)
                    ctx.ob('C05.LITERAL-FIRST', ok and not excs, where,
                           f.qual, 'literal result ' + U(e)[:80],
                           'a literal left side decides by the walker\'s '
                           'base case, match == str(literal)' if ok and
                           not excs else
                           'the literal comparison is not `substituted '
                           'match == str(literal_eval(kind))`')
                    continue
        if isinstance(e, ast.Compare) and (has_lit or isinstance(
                e.ops[0], (ast.Eq, ast.NotEq))):
            n_lit += 1
            ok = eq_match_str(
                e, is_match, lambda v: isinstance(v, ast.Call) and
                prog.resolve(f.module, v.func) == 'ext:ast.literal_eval'
                and len(v.args) == 1 and U(v.args[0]) == 'self.kind')
            ctx.ob('C05.LITERAL-FIRST', ok and not excs, where, f.qual,
                   'literal result ' + U(e),
                   'a literal left side decides by match == str(literal)'
                   if ok and not excs else
                   'the literal comparison is not `substituted match == '
                   'str(literal_eval(kind))`')
            continue
        if isinstance(e, ast.Call) and prog.callee_of(
                prog.functions.get(p.outcome.frame, f), e) is walker:
            n_walk += 1
            # reachable only from the literal-failure path
            lit_fail = any('try@' in str(c.expr.value) for c in excs) and \
                any(isinstance(ev.node, ast.Call) and prog.resolve(
                    f.module, ev.node.func) == 'ext:ast.literal_eval'
                    for ev in p.events if ev.kind == 'maycall')
            ctx.ob('C05.LITERAL-FIRST', lit_fail, where, f.qual,
                   'path walk after ' + p.cond_text(),
                   'the credential path is walked only when the left side '
                   'is not a literal' if lit_fail else
                   'the credential path walk is reachable without first '
                   'trying the left side as a literal')
            args = list(e.args)
            wp = walker.params[1:] if walker.cls is not None \
                else walker.params
            bound = dict(zip(wp, args))
            for k in e.keywords:
                bound[k.arg] = k.value
            root, segs, m = (bound.get(wp[0]), bound.get(wp[1]),
                             bound.get(wp[2])) if len(wp) >= 3 else (
                                 None, None, None)
            segs_x = t.expand(segs) if segs is not None else None
            ok_root = root is not None and U(root) == creds_p
            ok_segs = isinstance(segs_x, ast.Call) and method_call(
                segs_x, 'split') and U(method_call(segs_x)[0]) == \
                'self.kind' and segs_x.args and is_const(
                    segs_x.args[0], '.') and len(segs_x.args) == 1
            ok_m = m is not None and is_match(m)
            ctx.ob('C05.WALK', ok_root, where, f.qual,
                   'walk root ' + (U(root) if root is not None else '?'),
                   'the path is resolved in the credentials' if ok_root else
                   'the attribute path is not resolved in the credentials')
            ctx.ob('C05.WALK', bool(ok_segs), where, f.qual,
                   'path segments ' + (U(segs_x) if segs_x is not None
                                       else '?'),
                   'segments are self.kind split at dots' if ok_segs else
                   'the path is not self.kind split at every dot')
            ctx.ob('C05.WALK', ok_m, where, f.qual, 'walk match',
                   'compares with the substituted match' if ok_m else
                   'the walker is not given the substituted match')
            continue
        if isinstance(e, ast.UnaryOp) and isinstance(e.op, ast.Not):
            ctx.ob('C05.DENY', False, where, f.qual, 'result ' + U(e)[:80],
                   'the generic check answers the negation of a comparison '
                   '/ path walk')
            continue
        unread = unread or (where, U(e)[:80])
    if unread is not None and not ctx.findings:
        raise AnalysisError(
            'the generic check answers `%s` (%s): not a literal comparison, '
            'a path walk or a constant; what it decides is not one of the '
            'shapes this analysis reads' % (unread[1], unread[0]))
    ctx.count(len(t.paths))
    ctx.floor('C05.LITERAL-FIRST', n_lit, 1, 'literal comparisons')
    ctx.floor('C05.WALK', n_walk, 1, 'path walks')
    ctx.floor('C05.DENY', n_subst, 1, 'substitution handlers')
    return walker


def check_walker(ctx, walker):
    prog = ctx.prog
    f = walker
    wp = f.params[1:] if f.cls is not None else f.params
    if len(wp) != 3:
        raise AnalysisError('credential walker signature changed')
    val_p, seg_p, m_p = wp
    for n in walk_no_nested(f.node):
        if isinstance(n, (ast.For, ast.comprehension)) and any(
                isinstance(x, ast.Name) and x.id == seg_p
                for x in ast.walk(n.iter)):
            raise AnalysisError(
                'the credential walker %s consumes its path segments in a '
                'loop (line %d) instead of one per recursive call: the rules '
                'on its base case, step and list fold read the recursive '
                'form only' % (f.qual, getattr(n, 'lineno', n.iter.lineno)))
        if isinstance(n, ast.While) and any(
                isinstance(x, ast.Name) and x.id == seg_p
                for x in ast.walk(n.test)):
            raise AnalysisError(
                'the credential walker %s consumes its path segments in a '
                'while loop (line %d) instead of one per recursive call: '
                'the rules on its base case, step and list fold read the '
                'recursive form only' % (f.qual, n.lineno))
    from ..dte import inline_helpers
    t = Table(prog, f, inline=inline_helpers(prog, modules={CHECKS},
                                             exclude={f.qual}))
    W = ctx.where(f.module, f.node)

    def is_rest(x):
        x = t.expand(x)
        return isinstance(x, ast.Subscript) and U(x.value) == seg_p and \
            isinstance(x.slice, ast.Slice) and is_const(
                x.slice.lower, 1) and x.slice.upper is None

    def is_first(x):
        x = t.expand(x)
        return isinstance(x, ast.Subscript) and U(x.value) == seg_p and \
            is_const(x.slice, 0)

    def stepped(x):
        """x is test_value[first segment]"""
        x = t.expand(x)
        return isinstance(x, ast.Subscript) and U(x.value) == val_p and \
            is_first(x.slice)

    def empty_cond(c):
        e = c.expr
        if isinstance(e, ast.Compare) and isinstance(e.ops[0], ast.Eq):
            a, b = e.left, e.comparators[0]
            for x, y in ((a, b), (b, a)):
                if isinstance(x, ast.Call) and U(x.func) == 'len' and U(
                        x.args[0]) == seg_p and is_const(y, 0):
                    return c.pol
        if U(e) == seg_p:
            return not c.pol
        return None

    n_base = n_rec = n_list = 0
    for p in t.paths:
        where = '%s:%d' % (W.split(':')[0], p.outcome.line)
        if p.outcome.kind != 'return' or p.outcome.expr is None:
            ctx.ob('C05.DENY', False, where, f.qual, p.outcome.text(),
                   'the walker can raise / return None (path %s)'
                   % p.cond_text())
            continue
        e = t.expand(p.outcome.expr)
        emp = [empty_cond(c) for c in p.conds if c.kind == 'test']
        emp = [x for x in emp if x is not None]
        excs = [c for c in p.conds if c.kind == 'exc']
        loops = [c for c in p.conds if c.kind == 'loop']
        if emp and emp[0]:
            n_base += 1
            ok = eq_match_str(e, lambda x: U(x) == m_p,
                              lambda v: U(v) == val_p)
            ctx.ob('C05.WALK', ok, where, f.qual, 'base case ' + U(e),
                   'no segments left: match == str(value)' if ok else
                   'the base case is not `match == str(value)`')
            continue
        if excs:
            ok = is_const(e, False)
            ctx.ob('C05.DENY', ok, where, f.qual,
                   'missing attribute -> ' + U(e),
                   'a missing credential attribute denies' if ok else
                   'a missing credential attribute does not deny')
            continue
        if loops:
            n_list += 1
            # ANY fold over the list elements
            it = t.expand(loops[0].expr)
            is_list = any(c.kind == 'test' and c.pol and isinstance(
                c.expr, ast.Call) and U(c.expr.func) == 'isinstance'
                and stepped(c.expr.args[0]) and U(c.expr.args[1]) == 'list'
                for c in p.conds)
            ok_it = stepped(it) and is_list
            if not loops[0].pol:
                ok = is_const(e, False) and ok_it
                ctx.ob('C05.WALK', ok, where, f.qual,
                       'empty list -> ' + U(e),
                       'no element matches: deny' if ok else
                       'an empty list value does not deny')
                continue
            recs = [c for c in p.conds if c.kind == 'test' and isinstance(
                t.expand(c.expr), ast.Call) and prog.callee_of(
                    f, t.expand(c.expr)) is f]
            if len(recs) != 1 or not is_const(e):
                ctx.ob('C05.WALK', False, where, f.qual,
                       'list branch ' + U(e),
                       'the list branch is not an ANY fold over the '
                       'recursive match of each element')
                continue
            rc = t.expand(recs[0].expr)
            a = rc.args
            elem_ok = len(a) == 3 and isinstance(a[0], ast.Name) and \
                a[0].id.startswith('SYM_e') and is_rest(a[1]) and \
                U(a[2]) == m_p
            want = recs[0].pol
            ok = ok_it and elem_ok and e.value is want
            ctx.ob('C05.WALK', ok, where, f.qual,
                   'list element %s -> %s' % (
                       'matches' if want else 'does not match', U(e)),
                   'ANY fold: an element matching the rest of the path '
                   'accepts, exhaustion denies' if ok else
                   'the list branch is not an ANY fold over elements with '
                   'the remaining segments (hit -> %s)' % U(e))
            continue
        recs = [c for c in p.conds if c.kind == 'test' and isinstance(
            t.expand(c.expr), ast.Call) and prog.callee_of(
                f, t.expand(c.expr)) is f]
        if len(recs) == 1 and is_const(e) and isinstance(
                e.value, bool) and e.value is recs[0].pol:
            # `if walk(...): return True ... return False`: the answer of
            # the recursive call (a bool) handed on
            e = t.expand(recs[0].expr)
        if isinstance(e, ast.Call) and prog.callee_of(f, e) is f:
            n_rec += 1
            a = e.args
            ok = len(a) == 3 and stepped(a[0]) and is_rest(a[1]) and \
                U(a[2]) == m_p
            ctx.ob('C05.WALK', ok, where, f.qual, 'step ' + U(e),
                   'descends into value[first segment] with the remaining '
                   'segments' if ok else
                   'a step does not consume exactly the first segment and '
                   'pass the rest (progress / root lost)')
            continue
        ctx.ob('C05.WALK', False, where, f.qual, 'result ' + U(e),
               'unrecognised walker result on path %s' % p.cond_text())
    ctx.count(len(t.paths))
    ctx.floor('C05.WALK', n_base, 1, 'base cases')
    ctx.floor('C05.WALK', n_rec, 1, 'recursive steps')
    ctx.floor('C05.WALK', n_list, 2, 'list-branch paths')


def check_quoted(ctx):
    tf, en, paths = T.extract(ctx.prog)
    g = tf.func
    sc = getattr(tf, 'string_cond', None)
    if sc is None:
        raise AnalysisError('tokenizer never yields a string token')
    txt = ' and '.join(c.text() for c in sc)
    first = last = False
    for c in sc:
        for n in ast.walk(c.expr):
            if isinstance(n, ast.Subscript) and is_const(n.slice, 0):
                first = True
            if isinstance(n, ast.Subscript) and isinstance(
                    n.slice, ast.UnaryOp) and isinstance(
                        n.slice.op, ast.USub) and is_const(
                            n.slice.operand, 1):
                last = True
            if isinstance(n, ast.Call) and method_call(n, 'startswith'):
                first = True
            if isinstance(n, ast.Call) and method_call(n, 'endswith'):
                last = True
    # a length guard, where there is one, lets the two-character token
    # (the empty quoted string) through
    short = None
    for c in sc:
        for n in ast.walk(en.expand(c.expr)):
            if isinstance(n, ast.Compare) and len(n.ops) == 1 and isinstance(
                    n.left, ast.Call) and U(n.left.func) == 'len' and \
                    is_const(n.comparators[0]) and isinstance(
                        n.comparators[0].value, int):
                k = n.comparators[0].value
                opn = type(n.ops[0]).__name__
                if not c.pol:
                    opn = {'Gt': 'LtE', 'GtE': 'Lt', 'Lt': 'GtE',
                           'LtE': 'Gt'}.get(opn, opn)
                admits2 = {'Gt': 2 > k, 'GtE': 2 >= k, 'Lt': 2 < k,
                           'LtE': 2 <= k, 'Eq': 2 == k,
                           'NotEq': 2 != k}.get(opn, True)
                if not admits2:
                    short = (c, k, opn)
    ctx.ob('C05.QUOTED', short is None, '%s:%d' % (
        ctx.where(g.module, g.node).split(':')[0], tf.string_yield.line),
        g.qual, 'length guard of the quoted-string test',
        'two enclosing quotes make a string token, whatever is between them'
        if short is None else
        'the quoted-string test demands more than the two quotes (%s): the '
        'empty quoted string `""` is then a check token - always deny - '
        'that the grammar accepts as an operand (`not ""` allows everybody)'
        % short[0].text()[:60])
    ok = first and last
    ctx.ob('C05.QUOTED', ok, '%s:%d' % (
        ctx.where(g.module, g.node).split(':')[0], tf.string_yield.line),
        g.qual, 'string classification: ' + txt[-200:],
        'a token is a quoted string only by its first and last character'
        if ok else 'the quoted-string test does not consult both the first '
        'and the last character of the token (a check such as '
        "'Member':%(role.name)s is mistaken for a bare string)")


def check_quoted_peel(ctx):
    """The quoted-string test looks at the same word the leaf parser is
    handed: the token with its parentheses peeled on both sides.  Made on a
    word peeled on one side only, a leaf quoted at both ends ('a':'b') is a
    check where a parenthesis follows it and a bare string elsewhere: the
    printed form of `(not 'a':'b')` parses to `!`."""
    tf, en, paths = T.extract(ctx.prog)
    g = tf.func
    sides = getattr(tf, 'string_sides', None)
    if sides is None:
        raise AnalysisError('tokenizer never yields a string token')
    ok = len(sides) != 1
    ctx.ob('C05.QUOTED', ok, '%s:%d' % (
        ctx.where(g.module, g.node).split(':')[0], tf.string_yield.line),
        g.qual, 'word tested for enclosing quotes (peeled: %s)' % (
            sorted(sides) or 'as split'),
        'the quoted-string test and the leaf parser look at the same word'
        if ok else
        'the quoted-string test is made on a word peeled on one side only '
        '(%s): a leaf quoted at both ends is a check when a parenthesis on '
        'the other side follows it and a bare string otherwise, so the '
        'printed form of a rule containing it parses to a different rule'
        % sorted(sides)[0])


def check(ctx):
    ctx.use(CHECKS, PARSER)
    ctx.explain('C05: paths of the leaf parser, the generic check and its '
                'credential walker are extracted and matched against the '
                'documented comparison: literal first, dotted path in the '
                'credentials, ANY over lists, deny on missing keys.')
    ctx.assume('ast.literal_eval behaves as documented')
    gq = check_fallback(ctx)
    walker = check_generic(ctx, gq)
    check_walker(ctx, walker)
    check_quoted(ctx)
    check_quoted_peel(ctx)

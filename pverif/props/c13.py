"""C13 - validation flags every undefined or cyclic rule reference, and
only those."""
import ast

from .. import PKG
from .. import grammar as G
from ..dte import Table
from ..model import AnalysisError
from ..util import (U, is_const, method_call, walk_no_nested, str_elems,
                    kwarg)

POLICY = PKG + '.policy'
ENF = POLICY + '.Enforcer'
CHECKS = PKG + '._checks'
GEN = PKG + '.generator'


def walkers(prog):
    cr = prog.func(ENF + '.check_rules')
    out = []
    # direct callees, and those of the Enforcer helpers check_rules
    # delegates the collecting to
    seen = set()
    todo = [cr]
    while todo:
        f = todo.pop(0)
        if f.qual in seen:
            continue
        seen.add(f.qual)
        for call, g in prog.callees(f):
            if not isinstance(call, ast.Call) or g.cls is None or \
                    g.cls.qual != ENF:
                continue
            if any(isinstance(c, ast.Call) and prog.callee_of(g, c) is g
                   for c in ast.walk(g.node)):
                if g not in out:
                    out.append(g)
            elif g.name not in ('load_rules', 'enforce', '__init__'):
                todo.append(g)
    return cr, out


def child_reads(prog, w, param_index=1, depth=1):
    """attr -> list of nodes where the walker reads that attribute of its
    check parameter (directly, via getattr, or via a literal tuple of
    attribute names)."""
    p = w.params[param_index]
    reads = {}
    for n in walk_no_nested(w.node):
        if depth > 0 and isinstance(n, ast.Call) and any(
                isinstance(a, ast.Name) and a.id == p for a in n.args):
            # a helper that is handed the check and answers with (some of)
            # its children
            g = prog.callee_of(w, n)
            if g is not None and g is not w and not any(
                    isinstance(c, ast.Call) and prog.callee_of(g, c) is g
                    for c in ast.walk(g.node)):
                off = 1 if (g.cls is not None and not g.is_static
                            and isinstance(n.func, ast.Attribute)) else 0
                for i, a in enumerate(n.args):
                    if not (isinstance(a, ast.Name) and a.id == p):
                        continue
                    if i + off >= len(g.params):
                        continue
                    sub = child_reads(prog, g, i + off, depth - 1)
                    rets = [r.value for r in walk_no_nested(g.node)
                            if isinstance(r, ast.Return)
                            and r.value is not None]
                    for attr, srcs in sub.items():
                        if any(flows(g, srcs, r) for r in rets):
                            reads.setdefault(attr, []).append(n)
        if isinstance(n, ast.Attribute) and isinstance(n.value, ast.Name) \
                and n.value.id == p and isinstance(n.ctx, ast.Load):
            reads.setdefault(n.attr, []).append(n)
        if isinstance(n, ast.Call) and U(n.func) == 'getattr' and len(
                n.args) >= 2 and U(n.args[0]) == p:
            if is_const(n.args[1]):
                reads.setdefault(n.args[1].value, []).append(n)
            elif isinstance(n.args[1], ast.Name):
                v = n.args[1].id
                for lp in walk_no_nested(w.node):
                    if isinstance(lp, (ast.For, ast.comprehension)) and \
                            U(lp.target) == v and str_elems(lp.iter):
                        for a in str_elems(lp.iter):
                            reads.setdefault(a, []).append(n)
    return reads


def recursion_targets(prog, w):
    """Names / expressions passed as the check to recursive calls."""
    out = []
    for c in walk_no_nested(w.node):
        if isinstance(c, ast.Call) and prog.callee_of(w, c) is w and c.args:
            out.append(c.args[0])
    return out


def flows(w, src_nodes, target):
    """Does a value read at src_nodes reach `target` (an expression passed
    to the recursive call) through local assignment / loop variables?"""
    tainted = set()
    direct = {id(n) for n in src_nodes}
    changed = True

    def expr_t(e):
        for x in ast.walk(e):
            if id(x) in direct:
                return True
            if isinstance(x, ast.Name) and x.id in tainted:
                return True
        return False
    while changed:
        changed = False
        for n in walk_no_nested(w.node):
            tg, val = None, None
            if isinstance(n, ast.Assign):
                tg, val = n.targets, n.value
            elif isinstance(n, (ast.For, ast.comprehension)):
                tg, val = [n.target], n.iter
            if val is None or not expr_t(val):
                continue
            for t in tg:
                for x in ast.walk(t):
                    if isinstance(x, ast.Name) and x.id not in tainted:
                        tainted.add(x.id)
                        changed = True
    return expr_t(target)


def check_exhaustive(ctx, ws):
    prog = ctx.prog
    classes = G.check_classes(prog)
    children = {}
    for q, cc in classes.items():
        if cc.sem in ('and', 'or', 'not', 'ident') and cc.child_attr and \
                cc.child_attr in cc.init_attrs.values():
            children[q] = cc.child_attr
    ctx.floor('C13.EXHAUSTIVE', len(children), 3, 'child-holding check '
              'classes')
    for w in ws:
        reads = child_reads(prog, w)
        targets = recursion_targets(prog, w)
        for q, attr in sorted(children.items()):
            short = q.rsplit('.', 1)[-1]
            src = reads.get(attr, [])
            ok = bool(src) and any(flows(w, src, t) for t in targets)
            ctx.ob('C13.EXHAUSTIVE', ok, ctx.where(w.module, w.node),
                   w.qual, 'descent into %s.%s' % (short, attr),
                   'the walker recurses into %s.%s' % (short, attr) if ok
                   else 'the walker never descends into %s.%s: a reference '
                   'below `%s` is invisible to validation (an undefined or '
                   'cyclic reference there is not reported)' % (
                       short, attr, {'not': 'not'}.get(
                           classes[q].sem, classes[q].sem)))


def is_seen_any(t, x):
    d = t.en.defs.get(x.id) if isinstance(x, ast.Name) else None
    return isinstance(d, ast.Call) and U(d.func) == 'set' and not d.args


def fold_not(e):
    if isinstance(e, ast.UnaryOp) and isinstance(e.op, ast.Not) and \
            isinstance(e.operand, ast.Constant):
        return ast.Constant(value=not e.operand.value)
    return e


def check_walker_paths(ctx, ws):
    prog = ctx.prog
    alias = prog.registered_checks().get('rule')
    from ..dte import inline_helpers
    for w in ws:
        t = Table(prog, w, inline=inline_helpers(
            prog, modules={POLICY}, exclude={x.qual for x in ws}),
            max_depth=4)
        p_check = w.params[1]
        F = ctx.where(w.module, w.node).split(':')[0]
        is_cycle = len(w.params) > 2
        n_hit = n_miss = 0
        bad_fold = None
        undef_ok = cyc_hit = cyc_add = cyc_copy = None
        for p in t.paths:
            rec_true = rec_false = 0
            for c in p.conds:
                x = t.expand(c.expr)
                if c.kind == 'test' and isinstance(x, ast.Call) and \
                        prog.callee_of(w, x) is w:
                    if c.pol:
                        rec_true += 1
                    else:
                        rec_false += 1
            out = p.outcome
            oe = t.expand(out.expr) if out.kind == 'return' and \
                out.expr is not None else None
            if rec_true:
                n_hit += 1
                if not (oe is not None and is_const(oe, True)):
                    bad_fold = bad_fold or (p, 'a hit in a child does not '
                                            'propagate as True')
            if isinstance(oe, ast.Call) and prog.callee_of(w, oe) is w:
                n_hit += 1       # direct propagation, polarity 0
            if isinstance(oe, ast.UnaryOp) and isinstance(oe.op, ast.Not) \
                    and isinstance(oe.operand, ast.Call) and \
                    prog.callee_of(w, oe.operand) is w:
                bad_fold = bad_fold or (p, 'a child\'s verdict is negated')
            # alias-specific conditions
            isalias = [c for c in p.conds if c.kind == 'test' and isinstance(
                c.expr, ast.Call) and U(c.expr.func) == 'isinstance'
                and U(c.expr.args[0]) == p_check and prog.resolve(
                    w.module, c.expr.args[1]) == alias]
            if isalias and isalias[0].pol:
                for c in p.conds:
                    x = c.expr
                    if c.kind == 'test' and isinstance(x, ast.Compare) and \
                            isinstance(x.ops[0], ast.In) and U(x.left) == \
                            p_check + '.match':
                        cont = U(x.comparators[0])
                        if cont == 'self.rules' and not is_cycle:
                            if not c.pol:
                                good = is_const(oe, True)
                                undef_ok = good if undef_ok is None else (
                                    undef_ok and good)
                        if is_cycle and (cont == w.params[2] or is_seen_any(
                                t, x.comparators[0])) and c.pol:
                            good = is_const(oe, True)
                            cyc_hit = good if cyc_hit is None else (
                                cyc_hit and good)
            if not rec_true and not isalias and oe is not None and \
                    is_const(oe) and not any(c.kind == 'loop' and c.pol
                                             for c in p.conds):
                n_miss += 1
                if oe.value is not False:
                    bad_fold = bad_fold or (p, 'a leaf that is not a rule '
                                            'reference is reported')
            if rec_false and not rec_true and oe is not None and is_const(
                    oe) and oe.value is not False and not isalias:
                bad_fold = bad_fold or (p, 'exhaustion without a hit is '
                                        'reported as a problem')
        # a path must actually descend into each child attribute while its
        # value is truthy
        classes = G.check_classes(prog)
        attrs = sorted({cc.child_attr for cc in classes.values()
                        if cc.sem in ('and', 'or', 'not', 'ident')
                        and cc.child_attr})

        def reads_attr(x, a):
            x = t.expand(x)
            for n in ast.walk(x):
                if isinstance(n, ast.Attribute) and n.attr == a and U(
                        n.value) == p_check:
                    return True
                if isinstance(n, ast.Call) and U(n.func) == 'getattr' and \
                        len(n.args) >= 2 and U(n.args[0]) == p_check and \
                        is_const(n.args[1], a):
                    return True
            return False

        def elem_of(x):
            if isinstance(x, ast.Name) and x.id.startswith('SYM_e'):
                d = t.en.defs.get(x.id)
                if isinstance(d, tuple) and d[0] == 'elem':
                    return d[1]
            return None
        for a in attrs:
            live = False
            for p in t.paths:
                for e in p.events:
                    if e.kind != 'call' or prog.callee_of(w, e.node) \
                            is not w or not e.node.args:
                        continue
                    a0 = e.node.args[0]
                    src = elem_of(a0)
                    src = src if src is not None else a0
                    if not reads_attr(src, a):
                        continue
                    blocked = any(c.kind == 'test' and not c.pol and
                                  reads_attr(c.expr, a) and not isinstance(
                                      t.expand(c.expr), ast.Compare)
                                  for c in p.conds[:e.nconds])
                    if not blocked:
                        live = True
            if a in child_reads(prog, w):
                ctx.ob('C13.EXHAUSTIVE', live, ctx.where(w.module, w.node),
                       w.qual, 'live descent into .%s' % a,
                       'children held in .%s are walked when present' % a
                       if live else
                       'the descent into .%s is guarded so that it never '
                       'runs when children are present' % a)
        # a "nothing found" verdict must have looked at every kind of
        # child: for each child-holding class either its isinstance test or
        # a read of its child attribute is on the path
        holders = {q: cc.child_attr for q, cc in classes.items()
                   if cc.sem in ('and', 'or', 'not', 'ident')
                   and cc.child_attr}
        blind = None
        for p in t.paths:
            oe = t.expand(p.outcome.expr) if p.outcome.kind == 'return' \
                and p.outcome.expr is not None else None
            if not (oe is not None and is_const(oe) and not oe.value):
                continue
            isalias_true = any(
                c.kind == 'test' and c.pol and isinstance(c.expr, ast.Call)
                and U(c.expr.func) == 'isinstance' and prog.resolve(
                    w.module, c.expr.args[1]) == alias for c in p.conds)
            if isalias_true:
                continue            # a leaf reference has no children
            # the check is known to be of class K on this path: it is not
            # of a class unrelated to K (no package class derives from both)
            is_a = set()
            for c in p.conds:
                if c.kind == 'test' and c.pol and isinstance(
                        c.expr, ast.Call) and U(c.expr.func) == \
                        'isinstance' and len(c.expr.args) == 2 and U(
                            c.expr.args[0]) == p_check and not isinstance(
                                c.expr.args[1], ast.Tuple):
                    k = prog.resolve(w.module, c.expr.args[1])
                    if k and k.replace(POLICY, CHECKS) in classes:
                        is_a.add(k.replace(POLICY, CHECKS))

            # duck typing: a truthy read of the child attribute `a` says the
            # check is of one of the classes that hold children under `a`
            # (an instance of another class has no such attribute)
            for c in p.conds:
                if c.kind in ('test', 'loop') and c.pol and not isinstance(
                        t.expand(c.expr), ast.Compare):
                    for q0, a0_ in holders.items():
                        if reads_attr(c.expr, a0_) and not any(
                                a1_ != a0_ and reads_attr(c.expr, a1_)
                                for a1_ in holders.values()):
                            is_a.add(q0)

            def unrelated(k, q):
                if k == q:
                    return False
                subs_k = set(prog.subclasses(k))
                subs_q = set(prog.subclasses(q))
                return not (subs_k & subs_q)
            for q, a in holders.items():
                if is_a and all(unrelated(k, q) for k in is_a):
                    continue
                seen_attr = any(reads_attr(c.expr, a) for c in p.conds
                                if c.kind in ('test', 'loop'))
                seen_cls = any(
                    c.kind == 'test' and isinstance(c.expr, ast.Call)
                    and U(c.expr.func) == 'isinstance' and U(
                        c.expr.args[0]) == p_check and prog.resolve(
                            w.module, c.expr.args[1]) in (
                                q, q.replace(CHECKS, POLICY))
                    for c in p.conds)
                if not (seen_attr or seen_cls) and blind is None:
                    blind = (p, q.rsplit('.', 1)[-1], a)
                # children that are present must be walked
                present = any(c.kind == 'test' and c.pol and reads_attr(
                    c.expr, a) and not isinstance(t.expand(c.expr),
                                                  ast.Compare)
                    for c in p.conds)
                # walked: a child drawn from .<a> was handed to the walker
                walked = False
                for ev in p.events:
                    if ev.kind == 'call' and ev.node.args and \
                            prog.callee_of(prog.functions.get(
                                ev.frame, w), ev.node) is w:
                        a0 = ev.node.args[0]
                        src = elem_of(a0)
                        if reads_attr(src if src is not None else a0, a):
                            walked = True
                if present and not walked and blind is None:
                    blind = (p, q.rsplit('.', 1)[-1], a)
        ctx.ob('C13.EXHAUSTIVE', blind is None,
               '%s:%d' % (F, blind[0].outcome.line) if blind
               else ctx.where(w.module, w.node), w.qual,
               'clean verdicts examine every kind of child',
               'a check is declared clean only after its children (of every '
               'kind) were looked at' if blind is None else
               'the walker can return "nothing found" without looking at '
               '%s.%s (path: %s): references below such a node are pruned '
               'from validation' % (blind[1], blind[2],
                                    blind[0].cond_text()[-200:]))
        ctx.count(len(t.paths))
        ctx.ob('C13.FOLD', bad_fold is None and n_hit > 0,
               '%s:%d' % (F, bad_fold[0].outcome.line) if bad_fold
               else ctx.where(w.module, w.node), w.qual,
               'recursion over children (%d paths)' % len(t.paths),
               'ANY fold: a hit anywhere below propagates as truthy, '
               'exhaustion is falsy' if bad_fold is None and n_hit else (
                   bad_fold[1] + ' (path: %s)' % bad_fold[0].cond_text()[
                       -200:] if bad_fold else
                   'no path propagates a hit found in a child'))
        if not is_cycle:
            ctx.ob('C13.UNDEF', undef_ok is True, ctx.where(w.module,
                                                            w.node),
                   w.qual, 'undefined test',
                   'a rule reference whose name is not in the rule store is '
                   'reported' if undef_ok else
                   'a reference to a name that is not in the rule store is '
                   'not reported as undefined')
        else:
            ctx.ob('C13.CYCLE', cyc_hit is True, ctx.where(w.module,
                                                           w.node),
                   w.qual, 'revisit test',
                   'a reference already on the current path is a cycle'
                   if cyc_hit else 'meeting a name already seen on the '
                   'current path is not reported as a cycle')
            # add-before-descend, lookup only when defined, copy per branch
            seen_p = w.params[2]

            def is_seen(x):
                if U(x) == seen_p:
                    return True
                d = t.en.defs.get(x.id) if isinstance(x, ast.Name) else None
                return isinstance(d, ast.Call) and U(d.func) == 'set' \
                    and not d.args
            add_ok = copy_ok = lookup_ok = True
            n_desc = n_branch = 0
            for p in t.paths:
                evs = p.events
                for i, e in enumerate(evs):
                    if e.kind != 'call' or prog.callee_of(w, e.node) is not \
                            w:
                        continue
                    a0 = e.node.args[0] if e.node.args else None
                    a1 = e.node.args[1] if len(e.node.args) > 1 else kwarg(
                        e.node, seen_p)
                    a0x = t.expand(a0) if a0 is not None else None
                    via_get = isinstance(a0x, ast.Call) and method_call(
                        a0x, 'get') and U(method_call(a0x)[0]) == \
                        'self.rules' and a0x.args and U(t.expand(
                            a0x.args[0])) == p_check + '.match' and (
                                len(a0x.args) == 1 or is_const(
                                    a0x.args[1], None)) and \
                        'get' not in prog.cls(POLICY + '.Rules').methods
                    if a0 is not None and (U(a0x) == 'self.rules[%s.match]'
                                           % p_check or via_get):
                        n_desc += 1
                        added = any(
                            x.kind == 'call' and method_call(x.node, 'add')
                            and is_seen(method_call(x.node)[0]) and
                            U(t.expand(x.node.args[0])) == p_check + '.match'
                            for x in evs[:i])
                        if not added:
                            add_ok = False
                        defined = any(
                            c.kind == 'test' and c.pol and isinstance(
                                c.expr, ast.Compare) and isinstance(
                                    c.expr.ops[0], ast.In) and U(
                                        c.expr.left) == p_check + '.match'
                            and U(c.expr.comparators[0]) == 'self.rules'
                            for c in p.conds[:e.nconds])
                        if not defined and not via_get:
                            # (dict.get never falls back on the default
                            # rule: an undefined name yields None, which
                            # has no children)
                            lookup_ok = False
                        if a1 is None or U(a1) != seen_p:
                            # passing a copy here is fine too
                            pass
                    elif a0 is not None and isinstance(a0, ast.Name) and \
                            a0.id.startswith('SYM_e'):
                        n_branch += 1
                        if a1 is None or not (
                                isinstance(a1, ast.Call) and method_call(
                                    a1, 'copy') and is_seen(
                                        method_call(a1)[0]) or (
                                    isinstance(a1, ast.Call) and U(
                                        a1.func) == 'set' and a1.args
                                    and is_seen(a1.args[0]))):
                            copy_ok = False
            ctx.ob('C13.CYCLE', add_ok and n_desc > 0, ctx.where(
                w.module, w.node), w.qual, 'mark before descending',
                'the name is added to the visited set before its '
                'definition is walked' if add_ok and n_desc else
                'the referenced name is not marked as visited before its '
                'definition is walked: a cycle recurses without bound')
            ctx.ob('C13.CYCLE', lookup_ok and n_desc > 0, ctx.where(
                w.module, w.node), w.qual, 'descend only when defined',
                'the definition is looked up only for defined names'
                if lookup_ok and n_desc else
                'the walker looks up a definition without testing that the '
                'name is defined')
            if not copy_ok:
                # the other discipline: one shared set, and every path that
                # marks a name and does not report a cycle unmarks it again
                # before it returns (backtracking) - a node then sees the
                # names on its own reference path only
                n_marked = 0
                balanced = True
                for p in t.paths:
                    adds = [(i, x) for i, x in enumerate(p.events)
                            if x.kind == 'call' and method_call(x.node, 'add')
                            and is_seen(method_call(x.node)[0])
                            and x.node.args]
                    if not adds:
                        continue
                    oe = t.expand(p.outcome.expr) if p.outcome.kind == \
                        'return' and p.outcome.expr is not None else None
                    if oe is not None and is_const(oe, True):
                        continue        # a cycle was found: nothing to undo
                    n_marked += 1
                    for i, a in adds:
                        undone = any(
                            y.kind == 'call' and method_call(y.node) and
                            method_call(y.node)[1] in ('discard', 'remove')
                            and is_seen(method_call(y.node)[0])
                            and y.node.args and U(t.expand(
                                y.node.args[0])) == U(t.expand(
                                    a.node.args[0]))
                            for y in p.events[i + 1:])
                        if not undone:
                            balanced = False
                if balanced and n_marked > 0:
                    copy_ok = True
            ctx.ob('C13.CYCLE', copy_ok and n_branch > 0, ctx.where(
                w.module, w.node), w.qual, 'visited set per branch',
                'each branch of an and/or receives a copy of the visited '
                'set (diamonds are not cycles)' if copy_ok and n_branch
                else 'branches of an and/or share one visited set: mere '
                'diamond-shaped sharing is reported as a cycle')


def check_aggregate(ctx, cr, ws):
    prog = ctx.prog
    from ..dte import inline_helpers
    t = Table(prog, cr, inline=inline_helpers(
        prog, modules={POLICY}, exclude={x.qual for x in ws}), max_depth=4)
    W = ctx.where(cr.module, cr.node)
    und = [w for w in ws if len(w.params) == 2]
    cyc = [w for w in ws if len(w.params) > 2]
    bad = None
    n = 0
    if not any(c.kind == 'test' and isinstance(t.expand(c.expr), ast.Call)
               and prog.callee_of(cr, t.expand(c.expr)) in ws
               for p in t.paths for c in p.conds):
        raise AnalysisError(
            'no path of %s tests what a validation walker answered: how the '
            'walkers\' answers reach the verdict (collected in lists, '
            'filtered in comprehensions) is not one of the shapes this '
            'analysis reads' % cr.qual)
    for p in t.paths:
        hit = False
        skipped = any(c.kind == 'test' and c.pol and U(c.expr) ==
                      'self.skip_undefined_check' for c in p.conds)
        for c in p.conds:
            x = t.expand(c.expr)
            if c.kind == 'test' and c.pol and isinstance(x, ast.Call) and \
                    prog.callee_of(cr, x) in ws:
                hit = True
        raise_on = [c for c in p.conds if c.kind == 'test' and U(c.expr) ==
                    cr.params[1]]
        n += 1
        if p.outcome.kind == 'raise':
            cls = t.raised_class(p)
            if not (hit and raise_on and raise_on[0].pol and
                    cls == POLICY + '.InvalidDefinitionError'):
                bad = bad or (p, 'raises %s without a reported problem and '
                              'raise_on_violation' % cls)
        elif p.outcome.kind == 'return':
            e = fold_not(t.expand(p.outcome.expr))
            if not is_const(e):
                # a verdict kept as an expression over what the walkers
                # answered: evaluate it with the answers this path tested
                known = {}
                for c in p.conds:
                    if c.kind == 'test':
                        known[U(t.expand(c.expr))] = c.pol
                        known[U(c.expr)] = c.pol

                def ev(x):
                    if isinstance(x, ast.Constant):
                        return bool(x.value)
                    if isinstance(x, ast.UnaryOp) and isinstance(
                            x.op, ast.Not):
                        v = ev(x.operand)
                        return None if v is None else not v
                    if isinstance(x, ast.BoolOp):
                        vs = [ev(y) for y in x.values]
                        if isinstance(x.op, ast.Or):
                            return True if True in vs else (
                                None if None in vs else False)
                        return False if False in vs else (
                            None if None in vs else True)
                    if isinstance(x, ast.Call) and U(x.func) == 'bool' and \
                            len(x.args) == 1:
                        return ev(x.args[0])
                    return known.get(U(x), known.get(U(t.expand(x))))
                v = ev(e)
                if v is not None:
                    e = ast.Constant(value=v)
            want = not hit
            if not (is_const(e) and e.value is want):
                bad = bad or (p, 'returns %s although %s' % (
                    U(e), 'a problem was found' if hit
                    else 'nothing was found'))
            if hit and raise_on and raise_on[0].pol:
                bad = bad or (p, 'does not raise although a problem was '
                              'found and raise_on_violation is set')
        else:
            bad = bad or (p, 'returns None')
        # the undefined walker is skipped only by skip_undefined_check; the
        # cycle walker never
        loop1 = any(c.kind == 'loop' and c.pol for c in p.conds)
        if loop1:
            called = {prog.callee_of(cr, e.node) for e in p.events
                      if e.kind == 'call'}
            for w in cyc:
                if w not in called:
                    bad = bad or (p, 'a rule is not checked for cycles')
            for w in und:
                if w not in called and not skipped:
                    bad = bad or (p, 'a rule is not checked for undefined '
                                  'references')
    ctx.count(n)
    ctx.ob('C13.AGGREGATE', bad is None, W, cr.qual,
           'check_rules verdict (%d paths)' % n,
           'returns False exactly when a walker reported; raises '
           'InvalidDefinitionError only on request; skip_undefined_check '
           'suppresses only the undefined test' if bad is None else
           'check_rules %s (path: %s)' % (bad[1],
                                          bad[0].cond_text()[-250:]))


def check_validator(ctx):
    prog = ctx.prog
    f = prog.func(GEN + '._validate_policy')
    from ..dte import inline_helpers
    for c in ast.walk(f.node):
        g = prog.callee_of(f, c) if isinstance(c, ast.Call) else None
        if g is not None and g.module is f.module and any(
                isinstance(y, (ast.Yield, ast.YieldFrom))
                for y in ast.walk(g.node)):
            raise AnalysisError(
                'the validator %s collects its findings from the generator '
                '%s and derives its status from what that yields: the rules '
                'on the status (one test per problem class, non-zero when '
                'one is found) read the tests in the validator itself'
                % (f.qual, g.qual))
    t = Table(prog, f, inline=inline_helpers(prog, modules={GEN},
                                             classes=False), max_depth=4)
    W = ctx.where(f.module, f.node)

    def find(pred):
        return [c for p in t.paths for c in p.conds
                if c.kind == 'test' and pred(canon(c.expr))]

    def canon(expr):
        """text of the expanded condition with the constant operand of an
        equality on the right"""
        x = t.expand(expr)
        if isinstance(x, ast.Compare) and len(x.ops) == 1 and isinstance(
                x.ops[0], (ast.Eq, ast.Is)) and isinstance(
                    x.left, ast.Constant) and not isinstance(
                        x.comparators[0], ast.Constant):
            x = ast.Compare(left=x.comparators[0], ops=x.ops,
                            comparators=[x.left])
        return U(x)

    def raw_canon(expr):
        x = expr
        if isinstance(x, ast.Compare) and len(x.ops) == 1 and isinstance(
                x.ops[0], (ast.Eq, ast.Is)) and isinstance(
                    x.left, ast.Constant) and not isinstance(
                        x.comparators[0], ast.Constant):
            x = ast.Compare(left=x.comparators[0], ops=x.ops,
                            comparators=[x.left])
        return U(x)
    probs = {
        'missing policy file': lambda s: '_informed_no_policy_file' in s,
        'invalid rules': lambda s: 'check_rules()' in s,
        'unknown rule name': lambda s: ('registered_rules.get(' in s
                                        and 'is None' in s) or (
            ' in ' in s and s.endswith('.registered_rules')),
        'unparseable rule': lambda s: "== '!'" in s and '.rules[' in s
        and s.startswith('str('),
    }
    # the registry asked by trying: `try: <x>.registered_rules[name] /
    # except KeyError:` - the handler path is "unknown rule name"
    reg_tries = set()
    for tr in ast.walk(f.node):
        if isinstance(tr, ast.Try) and len(tr.body) == 1 and isinstance(
                tr.body[0], (ast.Expr, ast.Assign)) and isinstance(
                    tr.body[0].value, ast.Subscript) and U(
                        tr.body[0].value.value).endswith(
                            '.registered_rules') and tr.handlers and all(
                    U(h.type or '') == 'KeyError' for h in tr.handlers):
            reg_tries.add('try@%d' % tr.lineno)

    def unknown_by_try(c):
        return c.kind == 'exc' and 'KeyError' in str(getattr(
            c.expr, 'value', '')) and any(
                tg in str(getattr(c.expr, 'value', ''))
                for tg in reg_tries)
    bad = None
    for name, pred in probs.items():
        conds = find(pred)
        if name == 'unknown rule name' and not conds:
            conds = [c for p in t.paths for c in p.conds
                     if unknown_by_try(c)]
        ctx.ob('C13.VALIDATOR', bool(conds), W, f.qual,
               'problem class: ' + name,
               'tested by the validator' if conds else
               'the validator no longer tests for: ' + name)
    # on any path where a problem condition fired, the result is non-zero
    for p in t.paths:
        fired = []
        for c in p.conds:
            if unknown_by_try(c):
                fired.append('unknown rule name')
            if c.kind != 'test':
                continue
            s = canon(c.expr)
            if probs['missing policy file'](s) and c.pol:
                fired.append('missing policy file')
            if probs['invalid rules'](s) and not c.pol:
                fired.append('invalid rules')
            if probs['unknown rule name'](s) and c.pol == ('is None' in s):
                fired.append('unknown rule name')
        # unparseable needs both conjuncts
        a = [c for c in p.conds if c.kind == 'test' and probs[
            'unparseable rule'](canon(c.expr))]
        b = [c for c in p.conds if c.kind == 'test' and "!= '!'" in (
            '!= ' if False else U(t.expand(ast.UnaryOp(
                op=ast.Not(), operand=c.expr)))) or (
                    c.kind == 'test' and 'unparsed' in U(c.expr)
                    and "'!'" in U(c.expr))]
        literal_bang = [c for c in p.conds if c.kind == 'test' and
                        "== '!'" in raw_canon(c.expr) and '.rules['
                        not in canon(c.expr)]
        if a and a[0].pol and literal_bang and not literal_bang[0].pol:
            fired.append('unparseable rule')
        if p.outcome.kind != 'return' or p.outcome.expr is None:
            continue
        e = t.expand(p.outcome.expr)
        if fired and not (is_const(e) and e.value):
            bad = bad or (p, 'returns %s although %s' % (U(e), fired))
        if not fired and is_const(e) and e.value and not any(
                c.kind == 'loop' for c in p.conds if False):
            # a literal '!' must not be reported
            if a and a[0].pol and literal_bang and literal_bang[0].pol:
                bad = bad or (p, 'reports a literal `!` rule as '
                              'unparseable')
    both = any(
        any(c.kind == 'test' and probs['unparseable rule'](
            canon(c.expr)) for c in p.conds) and
        any(c.kind == 'test' and "== '!'" in raw_canon(c.expr)
            and '.rules[' not in canon(c.expr) for c in p.conds)
        for p in t.paths)
    ctx.ob('C13.VALIDATOR', both, W, f.qual, 'parse-failure guard',
           'a rule counts as unparseable only if it parsed to `!` and its '
           'literal text is not `!`' if both else
           'the parse-failure guard no longer compares the literal rule '
           'text with `!`: a literal `!` rule is reported as unparseable')
    # ... and that inference must be exact: "parsed to `!` although the text
    # is not `!`" means "was rejected" only if `!` is the one spelling of
    # always-deny.  The reducer table says whether it is: a reduction that
    # hands one of its operands back unchanged (parentheses) gives every
    # rule, `!` included, further spellings that parse without an error.
    if both:
        from . import c01
        try:
            _cl, _ps, table, effects, _m = c01.grammar_model(ctx)
        except Exception as e:
            raise AnalysisError('reducer table not readable for the '
                                'validator\'s parse-failure rule: %s' % e)
        ident = None
        for r in table:
            for kind, term in effects.get(r.method.name, ()):
                if isinstance(term, tuple) and len(term) == 2 and \
                        term[0] == 'P' and len(r.pattern) > 1 and \
                        r.pattern[term[1]] == 'check' and kind == 'check':
                    ident = ident or r
        spelling = None
        if ident is not None:
            spelling = ''.join('!' if tk == 'check' else tk
                               for tk in ident.pattern)
        ctx.ob('C13.VALIDATOR', spelling is None, W, f.qual,
               'parse failure inferred from the printed form',
               '`!` is the only text that parses to always-deny' if
               spelling is None else
               'the validator takes "parsed to `!`, written otherwise" for '
               'a parse failure, but the reducer %s hands its operand back '
               'unchanged: the valid rule `%s` parses to `!` as well, is '
               'reported as unparseable and fails the validation of a rule '
               'set that has no undefined or cyclic reference' % (
                   ident.method.name, spelling),
               witness={'rule_text': spelling,
                        'reducer': ident.method.qual if ident else None})
    ctx.count(len(t.paths))
    ctx.ob('C13.VALIDATOR', bad is None, W, f.qual,
           'validator status (%d paths)' % len(t.paths),
           'every problem class yields a non-zero status and a literal `!` '
           'is not a parse failure' if bad is None else
           'the validator %s (path: %s)' % (bad[1],
                                            bad[0].cond_text()[-250:]))
    # the status is what the console script exits with
    vp = prog.func(GEN + '.validate_policy')
    ok = any(isinstance(c, ast.Call) and U(c.func) == 'sys.exit' and c.args
             and isinstance(c.args[0], ast.Call) and prog.callee_of(
                 vp, c.args[0]) is f for c in ast.walk(vp.node))
    ctx.ob('C13.VALIDATOR', ok, ctx.where(vp.module, vp.node), vp.qual,
           'exit status', 'the console script exits with the validator\'s '
           'status' if ok else 'the console script does not exit with the '
           'validator\'s status')


def check(ctx):
    ctx.use(POLICY, CHECKS, GEN)
    ctx.explain('C13: child-holding attributes are computed from the check '
                'classes (constructor-stored and evaluated in __call__); '
                'each validation walker must descend into every one.  Fold '
                'polarity, the undefined / revisit tests, mark-before-'
                'descend, per-branch copies, the aggregate verdict and the '
                'validator\'s four problem classes are checked on extracted '
                'paths.')
    ctx.assume('termination of evaluation is decided only through its '
               'structural causes (exhaustiveness + cycle rule)')
    cr, ws = walkers(ctx.prog)
    if len(ws) < 2:
        raise AnalysisError('expected an undefined-reference walker and a '
                            'cycle walker, found %d recursive walkers'
                            % len(ws))
    for w in ws:
        if any(isinstance(n, (ast.Yield, ast.YieldFrom))
               for n in ast.walk(w.node)):
            raise AnalysisError(
                'the validation walker %s is a recursive generator: what it '
                'yields is judged by its consumer, a split the rules on the '
                'walk (fold polarity, undefined / revisit tests) do not read'
                % w.qual)
        cp = w.params[1] if len(w.params) > 1 else None
        for n in walk_no_nested(w.node):
            # a walker that answers with an object (the offending check,
            # its name) or None instead of a verdict: hits and misses are
            # then told apart by its callers, in ways the fold rules do not
            # read
            if isinstance(n, ast.Return) and n.value is not None:
                v = n.value
                if isinstance(v, ast.Name) and v.id == cp or (
                        isinstance(v, ast.Attribute) and isinstance(
                            v.value, ast.Name) and v.value.id == cp):
                    raise AnalysisError(
                        'the validation walker %s answers with an object '
                        '(`return %s`, line %d) or None instead of a '
                        'verdict: the rules on the walk read boolean folds '
                        'only' % (w.qual, U(v), n.lineno))
        for n in ast.walk(w.node):
            if isinstance(n, (ast.While, ast.For)) and any(
                    isinstance(x, ast.Name) and x.id == cp and isinstance(
                        x.ctx, ast.Store) for b in n.body
                    for x in ast.walk(b)):
                raise AnalysisError(
                    'the validation walker %s rebinds its check parameter '
                    '`%s` inside a loop (line %d: it steps through wrapped '
                    'checks in place instead of recursing): which kinds of '
                    'child it reaches is read off the recursive form only'
                    % (w.qual, cp, n.lineno))
    check_exhaustive(ctx, ws)
    check_walker_paths(ctx, ws)
    check_aggregate(ctx, cr, ws)
    check_validator(ctx)

"""C04 - role:X passes exactly when the credentials hold role X, ignoring
case (necessary conditions on the class registered for kind 'role')."""
import ast

from .. import PKG
from ..dte import Table
from ..model import AnalysisError
from ..util import U, is_const, method_call

CHECKS = PKG + '._checks'
NORMALISERS = ('lower', 'casefold', 'upper')


_NORM_ALIASES = {}


def norm_of(expr):
    """x.lower() -> ('lower', x) ; else (None, expr)"""
    if isinstance(expr, ast.Call) and isinstance(expr.func, ast.Name) and \
            expr.func.id in _NORM_ALIASES and len(expr.args) == 1:
        # NAME = operator.methodcaller('lower') / str.lower
        return _NORM_ALIASES[expr.func.id], expr.args[0]
    mc = method_call(expr)
    if mc and mc[1] in NORMALISERS and not expr.args:
        return mc[1], mc[0]
    if isinstance(expr, ast.Call) and U(expr.func) in (
            'str.lower', 'str.casefold', 'str.upper') and len(
                expr.args) == 1:
        return U(expr.func)[4:], expr.args[0]
    return None, expr


def substituted_match(t, expr, target_param):
    """is expr `self.match % target` ?"""
    e = t.expand(expr)
    return isinstance(e, ast.BinOp) and isinstance(e.op, ast.Mod) and \
        U(e.left) == 'self.match' and U(e.right) == target_param


def roles_source(expr, creds_param):
    """creds['roles'] / creds.get('roles'[, default]) -> key ; else None"""
    if isinstance(expr, ast.Subscript) and U(expr.value) == creds_param \
            and is_const(expr.slice):
        return expr.slice.value, 'subscript'
    mc = method_call(expr, 'get')
    if mc and U(mc[0]) == creds_param and expr.args and is_const(
            expr.args[0]):
        return expr.args[0].value, 'get'
    return None, None


def elem_source(t, expr):
    """The iterable a loop-element symbol was drawn from, else None."""
    if isinstance(expr, ast.Name) and expr.id in t.en.defs:
        d = t.en.defs[expr.id]
        if isinstance(d, tuple) and d and d[0] == 'elem':
            return d[1]
    return None


def empty_default(expr):
    return expr is None or (isinstance(expr, (ast.Tuple, ast.List, ast.Set))
                            and not expr.elts) or (
        isinstance(expr, ast.Dict) and not expr.keys) or (
        isinstance(expr, ast.Call) and U(expr.func) in (
            'tuple', 'list', 'set', 'frozenset', 'dict') and not expr.args) \
        or is_const(expr, '', None)


def roles_of(t, expr, creds_p, sentinel_keys=()):
    """(key, how) when expr denotes the role list of the credentials."""
    e = t.expand(expr)
    # list(x) / tuple(x) / set(x) / sorted(x) keep the elements
    while isinstance(e, ast.Call) and U(e.func) in (
            'list', 'tuple', 'set', 'sorted', 'frozenset', 'iter') and len(
                e.args) == 1:
        e = e.args[0]
    if isinstance(e, ast.BoolOp) and isinstance(e.op, ast.Or) and len(
            e.values) == 2 and empty_default(e.values[1]):
        e = e.values[0]                      # creds.get('roles') or ()
    key, how = roles_source(e, creds_p)
    if key is not None and how == 'get':
        dflt = e.args[1] if len(e.args) > 1 else None
        if not empty_default(dflt) and not (
                key in sentinel_keys and isinstance(dflt, (ast.Name,
                                                           ast.Attribute))):
            # (a sentinel default is fine once the path has tested for it)
            return None, None
    return key, how


def _subscript_in_keyerror_try(prog, f, creds_p, key):
    """Is every `creds[key]` of the class inside a try whose KeyError
    handler returns False?"""
    from ..util import parent_map, handler_names
    found = False
    for g in f.cls.methods.values():
        pm = parent_map(g.node)
        for n in ast.walk(g.node):
            if isinstance(n, ast.Subscript) and U(n.value) == creds_p and \
                    is_const(n.slice, key):
                found = True
                cur, anc, ok = n, pm.get(n), False
                while anc is not None:
                    if isinstance(anc, ast.Try) and any(
                            cur is b for b in anc.body):
                        for h in anc.handlers:
                            if 'builtin:KeyError' in handler_names(
                                    prog, g.module, h, g.cls) and all(
                                        isinstance(x, ast.Return)
                                        and is_const(x.value, False)
                                        for x in ast.walk(h)
                                        if isinstance(x, ast.Return)):
                                ok = True
                    cur, anc = anc, pm.get(anc)
                if not ok:
                    return False
    return found


def check(ctx):
    prog = ctx.prog
    ctx.use(CHECKS)
    ctx.explain('C04: every path of the __call__ of the class registered '
                "for kind 'role' is extracted with its helpers inlined, "
                'any()/all(), `in <comprehension>` and conditional '
                'expressions unfolded into the loops and branches they '
                'abbreviate, and results reduced to their truth.  Each path '
                'condition is classified (presence of the role list, scan '
                'of the role list, case-normalised equality of a held role '
                'with `self.match % target`, substitution failure); '
                'accepting paths need a positive match and nothing else, '
                'denying paths need a legitimate reason.')
    ctx.assume('str.lower/casefold is a case-insensitive equality on the '
               'quantified alphabet (one-to-one case mappings)')
    ctx.assume('loops are explored for zero and one element; a denial after '
               'a non-matching element must come after the scan completed')
    cq = prog.registered_checks().get('role')
    if cq is None:
        raise AnalysisError("no class registered for kind 'role'")
    f = prog.find_method(cq, '__call__')
    if f is None or f.cls.qual != cq:
        raise AnalysisError('role check has no __call__ of its own')
    prm = f.params
    if len(prm) < 4:
        raise AnalysisError('role check __call__ has too few parameters')
    target_p, creds_p = prm[1], prm[2]
    _NORM_ALIASES.clear()
    for nm, v in f.module.assigns.items():
        if isinstance(v, ast.Call) and (prog.resolve(f.module, v.func) or ''
                                        ).endswith('operator.methodcaller') \
                and len(v.args) == 1 and is_const(v.args[0]) and \
                v.args[0].value in NORMALISERS:
            _NORM_ALIASES[nm] = v.args[0].value
        elif isinstance(v, ast.Attribute) and U(v) in (
                'str.lower', 'str.casefold', 'str.upper'):
            _NORM_ALIASES[nm] = v.attr
    from ..dte import inline_self_methods
    t = Table(prog, f, inline=inline_self_methods(
        prog, exclude={CHECKS + '._check'}), split_returns=True,
        max_depth=4, comps=True)
    W = ctx.where(f.module, f.node)
    n_member = n_false = n_subst = 0
    reported = set()

    def once(rule, ok, where, construct, detail, **kw):
        k = (rule, construct, detail)
        if not ok and k in reported:
            return
        reported.add(k)
        ctx.ob(rule, ok, where, f.qual, construct, detail, **kw)

    plain = {'ok': False}

    def is_x(expr):
        """norm, True when expr is norm(self.match % target) - or, on a
        path that established that the pattern holds no `%` at all,
        norm(self.match): substituting into such a pattern changes
        nothing"""
        e = t.expand(expr)
        n, src = norm_of(e)
        if plain['ok'] and U(t.expand(src)) == 'self.match':
            return n, True
        return n, substituted_match(t, src, target_p)

    def no_placeholder_test(ce):
        x = t.expand(ce)
        return isinstance(x, ast.Compare) and len(x.ops) == 1 and \
            isinstance(x.ops[0], ast.In) and is_const(x.left) and \
            x.left.value in ('%', '%(') and U(x.comparators[0]) == \
            'self.match'

    for p in t.paths:
        where = '%s:%d' % (W.split(':')[0], p.outcome.line)
        if p.outcome.kind == 'raise':
            once('C04.ELSE-FALSE', False, where, p.outcome.text(),
                 'the role check can raise instead of deciding')
            continue
        if p.outcome.kind == 'end' or p.outcome.expr is None:
            once('C04.ELSE-FALSE', False, where, 'falls off the '
                 'end', 'the role check can return None on path %s'
                 % p.cond_text())
            continue
        e = p.outcome.expr
        if not is_const(e):
            raise AnalysisError('role check result not reduced to its truth: '
                                + U(e))
        verdict = bool(e.value)
        reasons = []          # legitimate reasons to deny
        sentinel_keys = set()
        match = None          # the positive match condition
        unknown = []
        keys = set()
        guard_keys = set()
        scanned = None
        plain['ok'] = any(c.kind == 'test' and not c.pol and
                          no_placeholder_test(c.expr) and is_const(
                              t.expand(c.expr).left, '%') for c in p.conds)
        for c in p.conds:
            ce = c.expr
            if c.kind == 'test' and no_placeholder_test(ce) and (
                    c.pol or plain['ok']):
                continue        # which way the pattern is filled in
            if c.kind == 'exc':
                if 'KeyError' in str(ce.value):
                    reasons.append('substitution failed')
                else:
                    unknown.append(c)
                continue
            if c.kind == 'loop':
                if empty_default(t.expand(ce)):
                    # the stand-in for "no role list"
                    if not c.pol:
                        reasons.append('no roles')
                    continue
                key, how = roles_of(t, ce, creds_p, sentinel_keys)
                if key is None:
                    unknown.append(c)
                    continue
                keys.add((key, how))
                scanned = ce
                if not c.pol:
                    reasons.append('no roles')
                continue
            # presence of the role list
            if isinstance(ce, ast.Compare) and len(ce.ops) == 1 and \
                    isinstance(ce.ops[0], ast.In) and is_const(ce.left) and \
                    U(ce.comparators[0]) == creds_p:
                guard_keys.add(ce.left.value)
                if not c.pol:
                    reasons.append('no role list')
                continue
            # creds.get(key, SENTINEL) is SENTINEL
            if isinstance(ce, ast.Compare) and len(ce.ops) == 1 and \
                    isinstance(ce.ops[0], ast.Is):
                lx, rx = t.expand(ce.left), t.expand(ce.comparators[0])
                for a_, b_ in ((lx, rx), (rx, lx)):
                    mg = method_call(a_, 'get') if isinstance(
                        a_, ast.Call) else None
                    if mg and U(mg[0]) == creds_p and len(a_.args) == 2 \
                            and is_const(a_.args[0]) and U(
                                a_.args[1]) == U(b_) and not isinstance(
                                    b_, ast.Constant):
                        guard_keys.add(a_.args[0].value)
                        sentinel_keys.add(a_.args[0].value)
                        if c.pol:
                            reasons.append('no role list')
                        break
                else:
                    unknown.append(c)
                continue
            # the substituted name held verbatim (`X in creds['roles']`):
            # equal as spelled is equal ignoring case, so a hit is a match;
            # a miss says nothing
            if isinstance(ce, ast.Compare) and len(ce.ops) == 1 and \
                    isinstance(ce.ops[0], ast.In):
                xn, x_is_x = is_x(ce.left)
                key, how = roles_of(t, ce.comparators[0], creds_p,
                                    sentinel_keys)
                if xn is None and x_is_x and key is not None:
                    keys.add((key, how))
                    if c.pol:
                        match = c
                    continue
            key, how = roles_of(t, ce, creds_p, sentinel_keys)
            if key is not None:
                # truthiness of the role list itself
                keys.add((key, how))
                if not c.pol:
                    reasons.append('no roles')
                continue
            if isinstance(ce, ast.Compare) and len(ce.ops) == 1 and \
                    isinstance(ce.ops[0], ast.Eq):
                a, b = ce.left, ce.comparators[0]
                hit = None
                for x, y in ((a, b), (b, a)):
                    xn, xsrc = norm_of(t.expand(x))
                    src = elem_source(t, xsrc)
                    if src is None:
                        continue
                    key, how = roles_of(t, src, creds_p, sentinel_keys)
                    yn, y_is_x = is_x(y)
                    if key is not None and y_is_x:
                        hit = (xn, yn, key, how)
                if hit is not None:
                    xn, yn, key, how = hit
                    keys.add((key, how))
                    if xn is None or yn is None or xn != yn:
                        once('C04.MEMBER', False, where, 'compare ' + U(ce),
                             'case is not normalised on %s' % (
                                 'either side' if xn is None and yn is None
                                 else 'the role side' if xn is None else
                                 'the left side' if yn is None else
                                 'both sides alike (%s vs %s)' % (xn, yn)))
                    if c.pol:
                        match = c
                    else:
                        reasons.append('role differs')
                    continue
            unknown.append(c)
        for c in unknown:
            xe = t.expand(c.expr) if isinstance(c.expr, ast.AST) else None
            nodes = list(ast.walk(xe)) if xe is not None else []
            if isinstance(c.expr, ast.AST):
                nodes += list(ast.walk(c.expr))
            for n in nodes:
                opaque = None
                if isinstance(n, ast.Call) and isinstance(
                        n.func, ast.Name) and n.func.id.startswith('SYM_'):
                    opaque = 'a call of a local function object'
                elif isinstance(n, ast.Call) and isinstance(
                        n.func, ast.Attribute) and U(n.func.value) in (
                            'self', 'cls') :
                    opaque = 'the result of the helper %s' % U(n.func)
                elif isinstance(n, ast.Attribute) and U(n.value) == 'self' \
                        and n.attr not in ('kind', 'match') and not any(
                            isinstance(m, ast.Call) and m.func is n
                            for m in ast.walk(xe)):
                    writers = sorted({
                        g.name for g in prog.functions.values()
                        if g.cls is not None and g.cls.qual == cq
                        and g.name != '__init__' and any(
                            isinstance(w, ast.Attribute) and isinstance(
                                w.ctx, ast.Store) and U(w.value) == 'self'
                            and w.attr == n.attr for w in ast.walk(g.node))})
                    if writers:
                        # positive evidence: state a call leaves behind
                        once('C04.MEMBER', False, where,
                             'instance state self.%s' % n.attr,
                             'the decision of role:X reads self.%s, which '
                             '%s writes while deciding: the check object is '
                             'shared by every request, so the decision '
                             'depends on earlier (or concurrent) calls and '
                             'not only on X, the target and the credentials'
                             % (n.attr, ', '.join(writers)))
                        break
                    opaque = 'the derived attribute self.%s (set by the ' \
                        'constructor)' % n.attr
                if opaque:
                    raise AnalysisError(
                        'the decision of role:X goes through %s (condition '
                        '`%s`, line %d), which the path analysis does not '
                        'read: whether it is the case-insensitive role '
                        'membership is not decided' % (
                            opaque, c.text()[:80], p.outcome.line))
            once('C04.MEMBER', False, where, 'condition ' + c.text()[:80],
                 'the decision of role:X depends on a condition that is '
                 'neither the presence of the role list, nor its scan, nor '
                 'the case-normalised equality of a held role with '
                 '`self.match %% target` (verdict %s on this path)' % verdict)
        if unknown:
            continue
        for key, how in sorted(keys):
            if key != 'roles':
                once('C04.MEMBER', False, where, 'role list key',
                     'the roles are read from creds[%r], not creds[\'roles\']'
                     % key)
            if how == 'subscript':
                guard = key in guard_keys or _subscript_in_keyerror_try(
                    prog, f, creds_p, key)
                once('C04.ELSE-FALSE', guard, where,
                     'presence guard for creds[%r]' % key,
                     'the key subscripted is the key tested for presence'
                     if guard else 'creds[%r] is read without a presence test '
                     'of that key: credentials without a role list raise '
                     'instead of denying' % key)
        if 'substitution failed' in reasons:
            n_subst += 1
            once('C04.SUBST', not verdict, where,
                 'missing target key -> %s' % verdict,
                 'a %(key)s placeholder missing from the target denies'
                 if not verdict else 'a missing target key does not deny')
            continue
        if verdict:
            n_member += 1
            ok = match is not None and not reasons
            once('C04.MEMBER' if match is None and not reasons
                 else 'C04.ELSE-FALSE', ok,
                 where, '%s -> True' % p.cond_text()[:160],
                 'accepts on a case-normalised match of a held role' if ok
                 else 'the role check accepts without a held role equal to X '
                 '(path: %s)' % p.cond_text()[:200])
        else:
            n_false += 1
            ok = bool(reasons)
            detail = 'denies (%s)' % ', '.join(reasons)
            if ok and reasons == ['role differs']:
                done = any(ev.kind == 'loopdone' for ev in p.events)
                if not done:
                    ok = False
                    detail = 'a held role different from X ends the scan ' \
                        'with a denial: later roles are never compared'
            if not ok and not reasons:
                detail = 'the role check denies although a held role ' \
                    'equals X (path: %s)' % p.cond_text()[:200] if match \
                    else 'the role check denies for no reason related to ' \
                    'the roles held (path: %s)' % p.cond_text()[:200]
            once('C04.ELSE-FALSE', ok, where,
                 '%s -> False' % p.cond_text()[:160], detail)
    ctx.count(len(t.paths))
    if n_subst == 0:
        ctx.ob('C04.SUBST', False, W, f.qual, 'self.match % target',
               'the placeholder substitution is not guarded by a KeyError '
               'handler that denies: a missing target key raises instead of '
               'denying')
    if n_member == 0 and not ctx.findings:
        ctx.ob('C04.MEMBER', False, W, f.qual, 'accepting paths',
               'no path of the role check accepts: a held role never passes')
    # C04.PARSE: the role check met in a rule text is built from that very
    # text (kind and X as written): the tokenizer hands the word it peeled to
    # the single-check parser (= C01.T7) and nothing else supplies the check
    def _t7(ctx):
        from . import c01 as _c01
        from .. import tokenizer as T
        try:
            classes, pstate, table, effects, model = _c01.grammar_model(ctx)
            ctx._effects = effects
            tf, en, paths = T.extract(ctx.prog)
            _c01.check_tokenizer(ctx, table, tf, en, paths)
        except AnalysisError as e:
            ctx.assume('C04.PARSE not decided (C01 declines: %s)'
                       % str(e)[:120])
    ctx.borrow('C04.PARSE', _t7, only=['C01.T7'])

    # ... and what the text parser hands back is what the reducer table
    # built: no later pass replaces role checks by something else
    def _driver(ctx):
        from . import c01 as _c01
        try:
            classes, pstate, table, effects, model = _c01.grammar_model(ctx)
            _c01.check_text_driver(ctx, pstate)
        except AnalysisError as e:
            ctx.assume('C04.PARSE(TEXT-DRIVER) not decided (C01 declines: '
                       '%s)' % str(e)[:120])
    ctx.borrow('C04.PARSE', _driver, only=['C01.TEXT-DRIVER'])

    # ... the word is cut into kind and X at its *first* colon only (a role
    # name such as compute:admin keeps its colons) and the check is built
    # from exactly these two parts (= C05.FALLBACK)
    def _leaf(ctx):
        from . import c05 as _c05
        try:
            _c05.check_fallback(ctx)
        except AnalysisError as e:
            ctx.assume('C04.PARSE(FALLBACK) not decided (C05 declines: %s)'
                       % str(e)[:120])
    ctx.borrow('C04.PARSE', _leaf, only=['C05.FALLBACK'])


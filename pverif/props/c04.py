"""C04 - role:X passes exactly when the credentials hold role X, ignoring
case (necessary conditions on the class registered for kind 'role')."""
import ast

from .. import PKG
from ..dte import Table
from ..model import AnalysisError
from ..util import U, is_const, method_call

CHECKS = PKG + '._checks'
NORMALISERS = ('lower', 'casefold', 'upper')


def norm_of(expr):
    """x.lower() -> ('lower', x) ; else (None, expr)"""
    mc = method_call(expr)
    if mc and mc[1] in NORMALISERS and not expr.args:
        return mc[1], mc[0]
    if isinstance(expr, ast.Call) and U(expr.func) in (
            'str.lower', 'str.casefold', 'str.upper') and len(
                expr.args) == 1:
        return U(expr.func)[4:], expr.args[0]
    return None, expr


def substituted_match(t, expr, target_param):
    """is expr `self.match % target` ?"""
    e = t.expand(expr)
    return isinstance(e, ast.BinOp) and isinstance(e.op, ast.Mod) and \
        U(e.left) == 'self.match' and U(e.right) == target_param


def roles_source(expr, creds_param):
    """creds['roles'] / creds.get('roles'[, default]) -> key ; else None"""
    if isinstance(expr, ast.Subscript) and U(expr.value) == creds_param \
            and is_const(expr.slice):
        return expr.slice.value, 'subscript'
    mc = method_call(expr, 'get')
    if mc and U(mc[0]) == creds_param and expr.args and is_const(
            expr.args[0]):
        return expr.args[0].value, 'get'
    return None, None


def check(ctx):
    prog = ctx.prog
    ctx.use(CHECKS)
    ctx.explain('C04: every path of the __call__ of the class registered '
                "for kind 'role' is extracted; the substitution, the "
                'membership test with symmetric case normalisation and the '
                'constant-False remainder are checked on each.')
    ctx.assume('str.lower/casefold is a case-insensitive equality on the '
               'quantified alphabet (one-to-one case mappings)')
    cq = prog.registered_checks().get('role')
    if cq is None:
        raise AnalysisError("no class registered for kind 'role'")
    f = prog.find_method(cq, '__call__')
    if f is None or f.cls.qual != cq:
        raise AnalysisError('role check has no __call__ of its own')
    prm = f.params
    if len(prm) < 4:
        raise AnalysisError('role check __call__ has too few parameters')
    target_p, creds_p = prm[1], prm[2]
    from ..dte import inline_self_methods
    helpers = {g.qual for q in prog.mro(cq) if q in prog.classes
               for g in prog.classes[q].methods.values()
               if not g.name.startswith('__')}
    t = Table(prog, f, inline=inline_self_methods(prog, only=helpers)
              if helpers else None)
    W = ctx.where(f.module, f.node)
    n_member = n_false = n_subst = 0
    for p in t.paths:
        where = '%s:%d' % (W.split(':')[0], p.outcome.line)
        if p.outcome.kind == 'raise':
            ctx.ob('C04.ELSE-FALSE', False, where, f.qual, p.outcome.text(),
                   'the role check can raise instead of deciding')
            continue
        if p.outcome.kind == 'end' or p.outcome.expr is None:
            ctx.ob('C04.ELSE-FALSE', False, where, f.qual, 'falls off the '
                   'end', 'the role check can return None on path %s'
                   % p.cond_text())
            continue
        e = t.expand(p.outcome.expr)
        exc = [c for c in p.conds if c.kind == 'exc']
        if exc:
            # the handler of the substitution
            n_subst += 1
            ok = is_const(e, False) and 'KeyError' in str(
                exc[0].expr.value)
            ctx.ob('C04.SUBST', ok, where, f.qual,
                   'missing target key -> ' + p.outcome.text(),
                   'a %(key)s placeholder missing from the target denies'
                   if ok else 'a missing target key does not deny '
                   '(handler %s returns %s)' % (exc[0].expr.value, U(e)))
            continue
        if is_const(e):
            n_false += 1
            ok = e.value is False
            # which presence condition guards it
            ctx.ob('C04.ELSE-FALSE', ok, where, f.qual,
                   '%s -> %s' % (p.cond_text(), U(e)),
                   'denies' if ok else
                   'the role check returns the constant %r (path: %s)' % (
                       e.value, p.cond_text()))
            continue
        # non-constant result: must be the positive, normalised membership
        n_member += 1
        ok = False
        detail = 'result is not a membership test of X among the roles'
        key = None
        if isinstance(e, ast.Compare) and len(e.ops) == 1 and isinstance(
                e.ops[0], ast.In):
            ln, lsrc = norm_of(e.left)
            right = e.comparators[0]
            rn, rkey, rhow = None, None, None
            if isinstance(right, (ast.ListComp, ast.SetComp,
                                  ast.GeneratorExp)) and len(
                                      right.generators) == 1 and not \
                    right.generators[0].ifs:
                g = right.generators[0]
                rn, rsrc = norm_of(right.elt)
                if U(rsrc) != U(g.target):
                    rn = 'other'
                rkey, rhow = roles_source(g.iter, creds_p)
            elif isinstance(right, ast.Call) and U(right.func) in (
                    'map', 'set', 'list'):
                inner = right
                while isinstance(inner, ast.Call) and U(inner.func) in (
                        'set', 'list') and inner.args:
                    inner = inner.args[0]
                if isinstance(inner, ast.Call) and U(inner.func) == 'map' \
                        and len(inner.args) == 2 and U(inner.args[0]) in (
                            'str.lower', 'str.casefold'):
                    rn = U(inner.args[0])[4:]
                    rkey, rhow = roles_source(inner.args[1], creds_p)
            if not substituted_match(t, lsrc, target_p):
                detail = 'the tested value is not `self.match % target`'
            elif rkey is None:
                detail = 'the collection searched is not the credentials\' ' \
                         'role list'
            elif ln is None or rn is None:
                detail = 'case is not normalised on %s side' % (
                    'the left' if ln is None else 'the roles')
            elif ln != rn:
                detail = 'different normalisers on the two sides (%s vs %s)' \
                         % (ln, rn)
            else:
                ok = True
                key = (rkey, rhow)
                detail = 'positive membership of %s(X) among %s() of ' \
                         'creds[%r]' % (ln, rn, rkey)
        elif isinstance(e, ast.Compare) and isinstance(e.ops[0], ast.NotIn):
            detail = 'membership test is negated'
        elif isinstance(e, ast.Call) and U(e.func) == 'any' and len(
                e.args) == 1 and isinstance(e.args[0], ast.GeneratorExp):
            g0 = e.args[0]
            g = g0.generators[0]
            c = g0.elt
            if isinstance(c, ast.Compare) and isinstance(c.ops[0], ast.Eq):
                a, b = c.left, c.comparators[0]
                for x, y in ((a, b), (b, a)):
                    xn, xs = norm_of(x)
                    yn, ys = norm_of(y)
                    if U(xs) == U(g.target) and substituted_match(
                            t, ys, target_p):
                        rkey, rhow = roles_source(g.iter, creds_p)
                        if xn and xn == yn and rkey is not None:
                            ok = True
                            key = (rkey, rhow)
                            detail = 'any(%s(role) == %s(X))' % (xn, yn)
                        elif xn != yn:
                            detail = 'different normalisers on the two sides'
        ctx.ob('C04.MEMBER', ok, where, f.qual, 'result ' + U(e), detail)
        if ok and key[0] != 'roles':
            ctx.ob('C04.MEMBER', False, where, f.qual, 'role list key',
                   'the roles are read from creds[%r], not creds[\'roles\']'
                   % key[0])
        if ok and key[1] == 'subscript':
            # presence of the same key must be established on this path
            guard = False
            for c in p.conds:
                ce = c.expr
                if c.kind == 'test' and c.pol and isinstance(
                        ce, ast.Compare) and isinstance(
                            ce.ops[0], ast.In) and is_const(
                                ce.left, key[0]) and U(
                                    ce.comparators[0]) == creds_p:
                    guard = True
            ctx.ob('C04.ELSE-FALSE', guard, where, f.qual,
                   'presence guard for creds[%r]' % key[0],
                   'the key subscripted is the key tested for presence'
                   if guard else 'creds[%r] is read without a presence test '
                   'of that key: credentials without a role list raise '
                   'instead of denying' % key[0])
    ctx.count(len(t.paths))
    # the substitution must be guarded at all
    scope = [f] + [prog.functions[h] for h in helpers
                   if h in prog.functions]
    subst_in_try = any(
        isinstance(n, ast.Try) and any(
            isinstance(x, ast.BinOp) and isinstance(x.op, ast.Mod)
            and U(x.left) == 'self.match' for b in n.body
            for x in ast.walk(b)) for g in scope for n in ast.walk(g.node))
    ctx.ob('C04.SUBST', subst_in_try, W, f.qual, 'self.match % target',
           'the placeholder substitution is guarded by a handler'
           if subst_in_try else 'the placeholder substitution is not '
           'guarded: a missing target key raises instead of denying')
    ctx.floor('C04.MEMBER', n_member, 1, 'membership results')
    ctx.floor('C04.SUBST', n_subst, 1, 'substitution handlers')

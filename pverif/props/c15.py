"""C15 - printing a rule and parsing it back is the identity (writer/reader
table agreement + bounded round trip on the extracted models)."""
import ast
import re

from .. import PKG
from .. import grammar as G
from .. import tokenizer as T
from ..dte import Table
from ..model import AnalysisError
from ..strshape import segments, merge, Lit, Hole, Join, Unknown, shape_text
from ..util import U, is_const, method_call, returns_of, kwarg
from . import c01

CHECKS = PKG + '._checks'
PARSER = PKG + '._parser'
POLICY = PKG + '.policy'
BOUNDS = {'quick': 9, 'thorough': 13}


class Printer:
    def __init__(self):
        self.wrap = {}       # sem -> (open, infix, close)
        self.not_prefix = None
        self.leaf = None     # (first attr, sep, second attr)
        self.consts = {}     # 'true'/'false' -> text


def _fold_collect_loop(tp, outs):
    """Two paths that differ only in whether one collecting loop ran
    (`xs = []; for c in self.children: xs.append(f(c))`, then a text built
    from xs): the printer's text is that of the comprehension
    `f(c) for c in self.children` in place of xs.  Returns (path, value)."""
    from ..pathutil import contents
    loops = [[c for c in p.conds if c.kind == 'loop'] for p in outs]
    if any(len(lc) != 1 for lc in loops) or any(
            len([c for c in p.conds if c.kind != 'loop']) for p in outs):
        return None
    if {lc[0].pol for lc in loops} != {True, False} or U(
            loops[0][0].expr) != U(loops[1][0].expr):
        return None
    p1 = outs[0] if loops[0][0].pol else outs[1]
    p0 = outs[1] if p1 is outs[0] else outs[0]
    import copy as _copy

    def unfold(e, depth=6):
        """value symbols replaced by their definitions; collections and
        loop elements stay symbols"""
        class X(ast.NodeTransformer):
            def visit_Name(self, n):
                d = tp.en.defs.get(n.id)
                if n.id.startswith('SYM_v') and isinstance(d, ast.AST) \
                        and depth > 0:
                    return unfold(d, depth - 1)
                return n
        return X().visit(_copy.deepcopy(e))
    e0, e1 = unfold(p0.outcome.expr), unfold(p1.outcome.expr)
    if U(e0) != U(e1):
        return None             # the same text is built either way
    cont, opaque = contents(p1)
    syms = [n.id for n in ast.walk(e1)
            if isinstance(n, ast.Name) and n.id in cont]
    if len(set(syms)) != 1 or syms[0] in opaque:
        return None
    acc = syms[0]
    items = cont[acc]
    d = tp.en.defs.get(acc)
    if len(items) != 1 or isinstance(items[0], tuple) or not (
            isinstance(d, ast.List) and not d.elts):
        return None
    it = loops[0][0].expr
    elem = [s_ for s_, dd in tp.en.defs.items() if isinstance(dd, tuple)
            and dd and dd[0] == 'elem' and dd[1] is (
                loops[0][0].expr if loops[0][0].pol else loops[1][0].expr)]
    if len(elem) != 1:
        return None

    class R(ast.NodeTransformer):
        def visit_Name(self, n):
            if n.id == elem[0]:
                return ast.copy_location(ast.Name(id='_c', ctx=ast.Load()), n)
            return n
    gen = ast.GeneratorExp(
        elt=R().visit(unfold(items[0])),
        generators=[ast.comprehension(
            target=ast.Name(id='_c', ctx=ast.Store()), iter=it, ifs=[],
            is_async=0)])

    class S(ast.NodeTransformer):
        def visit_Name(self, n):
            if n.id == acc:
                return gen
            return n
    val = S().visit(e1)
    return p1, ast.fix_missing_locations(val)


def _fold_small_cases(tp, outs):
    """A combinator printer with guard clauses for few children: when every
    special path is taken for a known number n of children (0 or 1) and
    prints what the general `open + infix.join(children) + close` form
    prints for that n, the general path stands for all of them."""
    shaped = []
    for p in outs:
        try:
            shaped.append((p, merge(segments(tp.expand(p.outcome.expr)))))
        except Unknown:
            return None
    general = [(p, sg) for p, sg in shaped
               if sum(isinstance(x, Join) for x in sg) == 1]
    if len(general) != 1:
        return None
    gp, gs = general[0]
    j = [x for x in gs if isinstance(x, Join)][0]
    i = gs.index(j)
    if not all(isinstance(x, Lit) for x in gs[:i] + gs[i + 1:]):
        return None
    op = ''.join(x.text for x in gs[:i])
    cl = ''.join(x.text for x in gs[i + 1:])
    coll = j.iter_text                      # e.g. self.rules

    def about_coll(x):
        """x is the joined collection, or a 1:1 image of it"""
        x = tp.expand(x)
        if U(x) == coll:
            return True
        if isinstance(x, (ast.ListComp, ast.GeneratorExp)) and len(
                x.generators) == 1 and not x.generators[0].ifs and U(
                    x.generators[0].iter) == coll:
            return True
        if isinstance(x, ast.Call) and U(x.func) in ('list', 'tuple') and \
                len(x.args) == 1:
            return about_coll(x.args[0])
        return False

    def count_of(p):
        n = None
        for c in p.conds:
            if c.kind not in ('test', 'loop'):
                continue
            e = tp.expand(c.expr)
            if about_coll(e) and not c.pol:
                n = 0
            elif isinstance(e, ast.Call) and U(e.func) == 'len' and len(
                    e.args) == 1 and about_coll(e.args[0]) and not c.pol:
                n = 0
            elif isinstance(e, ast.Compare) and len(e.ops) == 1 and \
                    isinstance(e.left, ast.Call) and U(e.left.func) == \
                    'len' and len(e.left.args) == 1 and about_coll(
                        e.left.args[0]) and is_const(e.comparators[0]):
                k = e.comparators[0].value
                if isinstance(e.ops[0], ast.Eq) and c.pol and k in (0, 1):
                    n = k
                elif isinstance(e.ops[0], ast.Lt) and c.pol and k == 1:
                    n = 0
                elif isinstance(e.ops[0], ast.Lt) and c.pol and k == 2 \
                        and n is None:
                    n = None        # 0 or 1: not decided by this alone
        return n

    def first_of(hole):
        """the hole prints the first (only) child"""
        try:
            x = ast.parse(hole.source, mode='eval').body
        except SyntaxError:
            return False
        if isinstance(x, ast.Call) and U(x.func) == 'str' and len(
                x.args) == 1:
            x = x.args[0]
        return isinstance(x, ast.Subscript) and is_const(
            x.slice, 0) and about_coll(x.value)

    for p, sg in shaped:
        if p is gp:
            continue
        n = count_of(p)
        if n == 0:
            ok = all(isinstance(x, Lit) for x in sg) and ''.join(
                x.text for x in sg) == op + cl
        elif n == 1:
            lits = ''.join(x.text for x in sg if isinstance(x, Lit))
            holes = [x for x in sg if isinstance(x, Hole)]
            ok = len(holes) == 1 and first_of(holes[0]) and lits == \
                op + cl and (not op or (isinstance(sg[0], Lit)
                                        and sg[0].text == op))
        else:
            ok = False
        if not ok:
            return None
    return gp


def extract_printers(ctx, classes):
    prog = ctx.prog
    pr = Printer()
    for q, cc in sorted(classes.items()):
        f = prog.find_method(q, '__str__')
        if f is None or f.cls.qual == CHECKS + '.BaseCheck':
            continue
        if f.cls.qual != q and cc.sem not in ('leaf', 'unknown'):
            pass
        from ..dte import inline_helpers
        tp = Table(prog, f, inline=inline_helpers(
            prog, modules={CHECKS}, exclude={CHECKS + '._check'}),
            handler_paths=False, quantifiers=False, max_depth=4,
            self_cls=q)
        outs = [p for p in tp.paths if p.outcome.kind == 'return'
                and p.outcome.expr is not None]
        folded = _fold_collect_loop(tp, outs) if len(outs) == 2 and len(
            tp.paths) == 2 else None
        tp_value = None
        if folded is None and len(outs) > 1 and len(outs) == len(tp.paths):
            one = _fold_small_cases(tp, outs)
            if one is not None:
                outs = [one]
                folded = (one, None)
        if folded is not None:
            outs = [folded[0]]
            tp_value = folded[1]
        if len(outs) != 1 or (len(tp.paths) != 1 and folded is None):
            # a printer whose text depends on conditions: every variant must
            # be the verbatim form, which the single-path case establishes
            texts = set()
            for p in outs:
                try:
                    texts.add(shape_text(merge(segments(tp.expand(
                        p.outcome.expr)))))
                except Unknown:
                    texts.add('?')
            short = q.rsplit('.', 1)[-1]
            ctx.ob('C15.FORMATS', False, ctx.where(f.module, f.node), f.qual,
                   'conditional printer (%d paths)' % len(tp.paths),
                   'the printed form of %s depends on conditions (%s): the '
                   'text is rewritten for some values, so what is printed can '
                   'parse back to a different check' % (
                       short, ' | '.join(sorted(texts))[:160]))
            raise AnalysisError('%s has no single return' % f.qual)
        value = tp_value if tp_value is not None else tp.expand(
            outs[0].outcome.expr)
        ret = ast.Pass()
        ret.lineno = ret.end_lineno = outs[0].outcome.line
        ret.col_offset = ret.end_col_offset = 0
        rets = [ret]
        try:
            segs = merge(segments(value))
        except Unknown as e:
            raise AnalysisError('printer %s not recognised: %s' % (f.qual,
                                                                   e))
        where = ctx.where(f.module, rets[0])
        if cc.sem in ('and', 'or'):
            j = [s for s in segs if isinstance(s, Join)]
            ok = len(j) == 1 and j[0].iter_text.startswith('self.') and all(
                isinstance(s, (Lit, Join)) for s in segs) and all(
                    isinstance(x, Lit) for x in j[0].sep)
            elem_ok = ok and (j[0].elem is None or (
                len(j[0].elem) == 1 and isinstance(j[0].elem[0], Hole)))
            if not (ok and elem_ok):
                ctx.ob('C15.FORMATS', False, where, f.qual,
                       'printer ' + shape_text(segs),
                       'the printed form of a combinator is not `open + '
                       'infix.join(children) + close`')
                raise AnalysisError('combinator printer not recognised')
            same = j[0].iter_text == 'self.' + (cc.child_attr or '?')
            ctx.ob('C15.FORMATS', same, where, f.qual,
                   'printed children %s / evaluated children self.%s' % (
                       j[0].iter_text, cc.child_attr),
                   'the printer lists exactly the children the evaluator '
                   'folds over' if same else
                   'the printer lists %s but __call__ folds over self.%s: '
                   'the printed rule and the decisions can diverge' % (
                       j[0].iter_text, cc.child_attr))
            i = segs.index(j[0])
            op = ''.join(s.text for s in segs[:i])
            cl = ''.join(s.text for s in segs[i + 1:])
            infix = ''.join(x.text for x in j[0].sep)
            pr.wrap[cc.sem] = (op, infix, cl, f, rets[0])
        elif cc.sem in ('not', 'ident'):
            ok = len(segs) == 2 and isinstance(segs[0], Lit) and isinstance(
                segs[1], Hole) and segs[1].source == 'self.' + (
                    cc.child_attr or '?')
            if not ok:
                ctx.ob('C15.FORMATS', False, where, f.qual,
                       'printer ' + shape_text(segs),
                       'the printed form of a negation is not `prefix + '
                       'child`')
                raise AnalysisError('negation printer not recognised')
            pr.not_prefix = (segs[0].text, f, rets[0])
        elif cc.sem in ('true', 'false'):
            if not (len(segs) == 1 and isinstance(segs[0], Lit)):
                raise AnalysisError('constant printer not recognised')
            pr.consts[cc.sem] = (segs[0].text, f, rets[0])
        elif q != CHECKS + '.Check' and prog.is_subclass(
                q, CHECKS + '.Check') and f.cls.qual != CHECKS + '.Check':
            # a leaf class with a printer of its own must print exactly
            # kind SEP match like the base leaf
            ok = len(segs) == 3 and isinstance(segs[0], Hole) and isinstance(
                segs[1], Lit) and isinstance(segs[2], Hole) and (
                    segs[0].source, segs[2].source) == ('self.kind',
                                                        'self.match')
            ctx.ob('C15.FORMATS', ok, where, f.qual,
                   'leaf printer override ' + shape_text(segs)[:60],
                   'prints kind, separator, match verbatim' if ok else
                   'the leaf class %s prints itself differently from '
                   '`kind:match` (it rewrites the text), so the printed rule '
                   'can parse back to a different check' % q.rsplit(
                       '.', 1)[-1])
        elif q == CHECKS + '.Check':
            ok = len(segs) == 3 and isinstance(segs[0], Hole) and isinstance(
                segs[1], Lit) and isinstance(segs[2], Hole)
            if not ok:
                ctx.ob('C15.FORMATS', False, where, f.qual,
                       'printer ' + shape_text(segs),
                       'a leaf check is not printed as `kind SEP match`')
                raise AnalysisError('leaf printer not recognised')
            pr.leaf = (segs[0].source, segs[1].text, segs[2].source, f,
                       rets[0])
    for need, what in ((pr.wrap.get('and'), 'AndCheck.__str__'),
                       (pr.wrap.get('or'), 'OrCheck.__str__'),
                       (pr.not_prefix, 'NotCheck.__str__'),
                       (pr.leaf, 'Check.__str__'),
                       (pr.consts.get('true'), 'TrueCheck.__str__'),
                       (pr.consts.get('false'), 'FalseCheck.__str__')):
        if need is None:
            raise AnalysisError('anchor vanished: %s' % what)
    return pr


def print_tree(pr, t, leafname):
    k = t[0]
    if k == 'leaf':
        return leafname(t[1])
    if k in ('and', 'or'):
        op, infix, cl = pr.wrap[k][:3]
        return op + infix.join(print_tree(pr, c, leafname)
                               for c in t[1]) + cl
    if k == 'not':
        return pr.not_prefix[0] + print_tree(pr, t[1], leafname)
    if k in ('true', 'false'):
        return pr.consts[k][0]
    raise G.Stuck('cannot print %r' % (t,))


class TokModel:
    """Tokenizer model parameterised by the extracted facts."""

    def __init__(self, tf, opens, closes):
        self.pattern = getattr(tf, 'split_pattern', r'\s+')
        self.open = opens
        self.close = closes
        self.keywords = set(tf.keyword_kinds)
        self.normalised = all(tn and yn for _k, tn, yn, _y, _c in tf.kw_tests)

    def tokenize(self, text, leaf_of):
        out = []
        for tok in re.split(self.pattern, text):
            if not tok or tok.isspace():
                continue
            clean = tok.lstrip(self.open)
            out.extend([(self.open, ('str', self.open))] * (
                len(tok) - len(clean)))
            if not clean:
                continue
            tok = clean
            clean = tok.rstrip(self.close)
            trail = len(tok) - len(clean)
            low = clean.lower() if self.normalised else clean
            if low in self.keywords:
                out.append((low, ('str', clean)))
            elif clean:
                if len(tok) >= 2 and (tok[0], tok[-1]) in (('"', '"'),
                                                           ("'", "'")):
                    out.append(('string', ('str', tok[1:-1])))
                else:
                    out.append(('check', leaf_of(clean)))
            out.extend([(self.close, ('str', self.close))] * trail)
        return out


def check_formats(ctx, pr, tf, table, opens, closes):
    prog = ctx.prog
    pat = getattr(tf, 'split_pattern', r'\s+')
    # which keyword builds which semantics (from the table model)
    for sem in ('and', 'or'):
        op, infix, cl, f, node = pr.wrap[sem]
        where = ctx.where(f.module, node)
        kw = infix.strip().lower()
        lead = infix[:len(infix) - len(infix.lstrip())]
        trail = infix[len(infix.rstrip()):]
        ws_ok = bool(lead) and bool(trail) and re.fullmatch(
            pat, lead) is not None and re.fullmatch(pat, trail) is not None
        ctx.ob('C15.FORMATS', ws_ok, where, f.qual, 'infix %r' % infix,
               'the operator is printed between whitespace the tokenizer '
               'splits on' if ws_ok else
               'the printed operator %r is not surrounded by whitespace the '
               'tokenizer splits on: the printed rule does not tokenize '
               'back' % infix)
        kw_ok = kw in tf.keyword_kinds
        ctx.ob('C15.FORMATS', kw_ok, where, f.qual, 'operator keyword %r'
               % kw, 'is a keyword of the reader' if kw_ok else
               'the printed operator %r is not a keyword of the rule '
               'language' % kw)
        wrap_ok = op == opens and cl == closes
        ctx.ob('C15.FORMATS', wrap_ok, where, f.qual,
               'wrapping %r ... %r' % (op, cl),
               'combinators are printed inside the parentheses the '
               'tokenizer peels' if wrap_ok else
               'a combinator is not printed inside exactly one pair of the '
               'reader\'s parentheses (%r ... %r): precedence is lost when '
               'the text is parsed back' % (op, cl))
    prefix, f, node = pr.not_prefix
    kw = prefix.strip().lower()
    ok = kw in tf.keyword_kinds and prefix != prefix.rstrip() and \
        re.fullmatch(pat, prefix[len(prefix.rstrip()):]) is not None
    ctx.ob('C15.FORMATS', ok, ctx.where(f.module, node), f.qual,
           'negation prefix %r' % prefix,
           'keyword followed by whitespace' if ok else
           'the negation prefix %r does not tokenize back to the keyword '
           'and its operand' % prefix)
    a, sep, b, f, node = pr.leaf
    pc = prog.func(PARSER + '._parse_check')
    splits = [c for c in ast.walk(pc.node) if isinstance(c, ast.Call)
              and (method_call(c, 'split') or method_call(c, 'partition'))
              and U(method_call(c)[0]) == pc.params[0]]
    # ... or in a helper the leaf parser hands its text to
    for c in ast.walk(pc.node):
        g = prog.callee_of(pc, c) if isinstance(c, ast.Call) else None
        if g is not None and g.module is pc.module and g.params and \
                c.args and U(c.args[0]) == pc.params[0]:
            splits += [d for d in ast.walk(g.node) if isinstance(d, ast.Call)
                       and (method_call(d, 'split')
                            or method_call(d, 'partition'))
                       and U(method_call(d)[0]) == g.params[0]]
    if not splits:
        raise AnalysisError(
            'the leaf parser %s does not split its text with split() / '
            'partition() (neither itself nor in a helper it hands the text '
            'to): where it cuts kind from match is not read' % pc.qual)
    sep_ok = bool(splits) and all(c.args and is_const(c.args[0], sep)
                                  and (method_call(c, 'partition') or
                                       is_const(kwarg(c, 'maxsplit', 1), 1))
                                  for c in splits)
    order_ok = (a, b) == ('self.kind', 'self.match')
    ctx.ob('C15.FORMATS', sep_ok and order_ok, ctx.where(f.module, node),
           f.qual, 'leaf %s %r %s' % (a, sep, b),
           'a leaf prints kind, the separator the leaf parser splits on '
           'once, then match' if sep_ok and order_ok else
           'the leaf printer (%s %r %s) and the leaf parser (split %s) '
           'disagree' % (a, sep, b, [U(c) for c in splits]))


def check_roundtrip(ctx, pr, tf, model, pred, opens, closes):
    n = BOUNDS[ctx.tier]
    tm = TokModel(tf, opens, closes)
    seen = set()
    bad = []
    total = 0
    names = ['k%d:m%d' % (i, i) for i in range(12)]

    def leafname(i):
        return names[i] if i < len(names) else '<other leaf %d>' % i

    def leaf_of(text):
        if text in names:
            return ('leaf', names.index(text))
        if text == pr.consts['true'][0]:
            return ('true',)
        if text == pr.consts['false'][0]:
            return ('false',)
        return ('leaf', 900 + (hash(text) % 50))

    def variants(tree):
        yield tree
        ls = G.leaves(tree)
        if ls:
            def sub(t, i, repl):
                if t[0] == 'leaf':
                    return repl if t[1] == i else t
                if t[0] in ('and', 'or'):
                    return (t[0], tuple(sub(c, i, repl) for c in t[1]))
                if t[0] == 'not':
                    return ('not', sub(t[1], i, repl))
                return t
            yield sub(tree, ls[0], ('true',))
            yield sub(tree, ls[-1], ('false',))
    for s in G.sentences(n):
        vals = []
        li = 0
        for tk in s:
            if tk == 'check':
                vals.append(('leaf', li))
                li += 1
            else:
                vals.append(('str', tk))
        state = ((), ())
        try:
            for tk, v in zip(s, vals):
                state = model.shift(state, tk, v)
        except G.Stuck:
            continue
        if not pred(state[0], state[1]):
            continue
        for tree in variants(state[1][0]):
            try:
                text = print_tree(pr, tree, leafname)
            except G.Stuck:
                continue
            if text in seen:
                continue
            seen.add(text)
            total += 1
            toks = tm.tokenize(text, leaf_of)
            st2 = ((), ())
            why = None
            try:
                for tk, v in toks:
                    st2 = model.shift(st2, tk, v)
            except G.Stuck as e:
                why = 'the printed text cannot be reduced: %s' % e
            if why is None and not pred(st2[0], st2[1]):
                why = 'the printed text is not accepted by the parser'
            if why is None:
                back = st2[1][0]
                try:
                    text2 = print_tree(pr, back, leafname)
                except G.Stuck:
                    text2 = None
                if text2 != text:
                    why = 'parses back to %r' % text2
                else:
                    ls = sorted(set(G.leaves(tree)) | set(G.leaves(back)))
                    if len(ls) <= 8:
                        idx = {l: i for i, l in enumerate(ls)}

                        def ren(t):
                            if t[0] == 'leaf':
                                return ('leaf', idx[t[1]])
                            if t[0] in ('and', 'or'):
                                return (t[0], tuple(ren(c) for c in t[1]))
                            if t[0] == 'not':
                                return ('not', ren(t[1]))
                            return t
                        same, bits = G.same_decisions(ren(tree), ren(back),
                                                      len(ls))
                        if not same:
                            why = 'parses back to a rule deciding ' \
                                  'differently'
            if why is not None:
                bad.append((text, why, G.tree_text(tree)))
    ctx.count(total, [('C15.ROUNDTRIP', i) for i in range(min(total, 64))])
    ctx.extra['roundtrip_trees'] = total
    w = pr.wrap['and']
    if bad:
        bad.sort(key=lambda x: len(x[0]))
        text, why, tt = bad[0]
        ctx.ob('C15.ROUNDTRIP', False, ctx.where(w[3].module, w[4]),
               CHECKS, 'print/parse round trip',
               'the rule %s prints as %r, which %s (%d of %d trees fail)' % (
                   tt, text, why, len(bad), total),
               witness={'tree': tt, 'printed': text, 'problem': why})
    else:
        ctx.ob('C15.ROUNDTRIP', True, ctx.where(w[3].module, w[4]), CHECKS,
               'print/parse round trip',
               'all %d distinct printed trees (sentences up to %d tokens, '
               'with @ and ! leaves) tokenize and reduce back to the same '
               'printed form and the same decisions' % (total, n))
    ctx.floor('C15.ROUNDTRIP', total, 50, 'printed trees')


def check_dump(ctx):
    prog = ctx.prog
    f = prog.func(POLICY + '.Rules.__str__')
    from ..dte import inline_helpers
    t = Table(prog, f, inline=inline_helpers(prog, modules={POLICY}),
              comps=True, max_depth=4)
    W = ctx.where(f.module, f.node)
    true_ok = other_ok = ser_ok = False
    for p in t.paths:
        for e in p.events:
            if e.kind == 'store' and isinstance(e.node, ast.Subscript):
                is_true = [c for c in p.conds[:e.nconds] if c.kind == 'test'
                           and isinstance(c.expr, ast.Call) and U(
                               c.expr.func) == 'isinstance' and prog.resolve(
                                   f.module, c.expr.args[1]) ==
                           CHECKS + '.TrueCheck']
                v = t.expand(e.value)
                keyed = isinstance(e.node.slice, ast.Subscript) or \
                    'SYM_e' in U(e.node.slice)
                if is_true and is_true[0].pol and is_const(v, '') and keyed:
                    true_ok = True
                if is_true and not is_true[0].pol and isinstance(
                        v, ast.Call) and U(v.func) == 'str' and keyed:
                    other_ok = True
        if p.outcome.kind == 'return' and p.outcome.expr is not None:
            e = t.expand(p.outcome.expr)
            if isinstance(e, ast.Call) and (prog.resolve(
                    f.module, e.func) or '').endswith(('jsonutils.dumps',
                                                       'json.dumps')):
                ser_ok = True
        # two parallel columns paired up again: the names, and a list the
        # printed forms were appended to while walking the values in the
        # same order -- dict(zip(<names>, <column>))
        for z in p.events:
            if not (z.kind == 'call' and U(z.node.func) == 'dict' and len(
                    z.node.args) == 1 and not z.node.keywords):
                continue
            zz = t.en.defs.get(z.node.args[0].id) if isinstance(
                z.node.args[0], ast.Name) else z.node.args[0]
            if not (isinstance(zz, ast.Call) and U(zz.func) == 'zip'
                    and len(zz.args) == 2 and isinstance(zz.args[1],
                                                         ast.Name)):
                continue
            names = U(t.expand(zz.args[0]))
            col = zz.args[1].id
            if names not in ('list(self.keys())', 'self.keys()', 'self',
                             'list(self)', 'tuple(self.keys())',
                             'tuple(self)'):
                continue
            for e in p.events:
                if not (e.kind == 'call' and method_call(e.node, 'append')
                        and U(method_call(e.node)[0]) == col
                        and len(e.node.args) == 1):
                    continue
                is_true = [c for c in p.conds[:e.nconds] if c.kind == 'test'
                           and isinstance(c.expr, ast.Call) and U(
                               c.expr.func) == 'isinstance' and prog.resolve(
                                   f.module, c.expr.args[1]) ==
                           CHECKS + '.TrueCheck']
                v = t.expand(e.node.args[0])
                subj = is_true[0].expr.args[0] if is_true else None
                d = t.en.defs.get(subj.id) if isinstance(
                    subj, ast.Name) else None
                over_values = isinstance(d, tuple) and d[0] == 'elem' and U(
                    t.expand(d[1])) == 'self.values()'
                if not over_values:
                    continue
                if is_true[0].pol and is_const(v, ''):
                    true_ok = True
                if not is_true[0].pol and isinstance(v, ast.Call) and U(
                        v.func) == 'str' and len(v.args) == 1 and U(
                            v.args[0]) == U(subj):
                    other_ok = True
    if not true_ok:
        # every name pre-seeded with '' (dict.fromkeys(self, '')) and the
        # always-allow entries left as they are
        seeded = {s_ for s_, d in t.en.defs.items() if isinstance(d, ast.Call)
                  and U(d.func) == 'dict.fromkeys' and len(d.args) == 2
                  and U(d.args[0]) in ('self', 'self.keys()')
                  and is_const(d.args[1], '')}
        for p in t.paths:
            pos = [c for c in p.conds if c.kind == 'test' and c.pol
                   and isinstance(c.expr, ast.Call) and U(
                       c.expr.func) == 'isinstance' and prog.resolve(
                           f.module, c.expr.args[1]) == CHECKS + '.TrueCheck']
            if pos and seeded and not any(
                    e.kind == 'store' and isinstance(e.node, ast.Subscript)
                    and U(e.node.value) in seeded for e in p.events) \
                    and not any(e.kind == 'call' and method_call(e.node)
                                and U(method_call(e.node)[0]) in seeded
                                for e in p.events):
                true_ok = True
    ctx.ob('C15.DUMP', true_ok, W, f.qual, "always-allow -> ''",
           'an always-allow rule is dumped as the empty string, which '
           'loads back to always-allow' if true_ok else
           'Rules.__str__ does not dump TrueCheck as the empty string')
    ctx.ob('C15.DUMP', other_ok and ser_ok, W, f.qual,
           'other rules -> str(check) through the JSON serializer',
           'every other rule is dumped as its printed form, keyed by name, '
           'as JSON' if other_ok and ser_ok else
           'Rules.__str__ does not dump str(check) per name through the '
           'JSON serializer')


def check_eq(ctx):
    prog = ctx.prog
    f = prog.func(POLICY + '.RuleDefault.__eq__')
    from ..dte import inline_helpers
    t = Table(prog, f, inline=inline_helpers(prog, modules={POLICY},
                                             classes=False),
              split_returns=True, max_depth=3)
    other = f.params[1]
    W = ctx.where(f.module, f.node)
    bad = None
    n_true = 0

    def is_pair(c, a, b):
        e = c.expr
        return c.kind == 'test' and isinstance(e, ast.Compare) and \
            isinstance(e.ops[0], ast.Eq) and {U(t.expand(e.left)), U(
                t.expand(e.comparators[0]))} == {a, b}
    for p in t.paths:
        if p.outcome.kind != 'return' or p.outcome.expr is None:
            continue
        e = t.expand(p.outcome.expr)
        if is_const(e) and not e.value:
            continue
        n_true += 1
        names = any(is_pair(c, 'self.name', other + '.name') and c.pol
                    for c in p.conds)
        printed = any(is_pair(c, 'str(self.check)',
                              'str(%s.check)' % other) and c.pol
                      for c in p.conds)
        if not is_const(e):
            # a returned conjunction: both comparisons must be conjuncts
            txt = U(e)
            names = names or ('self.name == %s.name' % other) in txt
            printed = printed or ('str(self.check) == str(%s.check)'
                                  % other) in txt
        if not (names and printed):
            bad = (p, names, printed)
    ctx.ob('C15.EQ', bad is None and n_true > 0, W, f.qual,
           'RuleDefault equality',
           'two defaults are equal only under equal names and equal '
           'printed checks' if bad is None and n_true else
           'RuleDefault.__eq__ can answer True without comparing %s' % (
               'names and printed checks' if bad is None else
               ('the names' if not bad[1] else 'the printed checks '
                '(str(check)), e.g. by comparing check_str')))


def check_pure_printers(ctx, classes):
    """What a check prints depends on the check alone: no printer - nor a
    decorator wrapped around it - keeps module-level state (a memo, a set of
    'prints in progress'), which other prints, other threads included, would
    see."""
    from ..modstate import state_uses
    from ..model import FunctionInfo
    prog = ctx.prog
    region = {}
    for q in sorted(classes):
        f = prog.find_method(q, '__str__')
        if f is None:
            continue
        region[f.qual] = f
        for q2, g in prog.region(f).items():
            if g.module.name == CHECKS:
                region.setdefault(q2, g)
        w = prog.wrapper_of(f)
        if w is not None:
            g = FunctionInfo(f.module, w[0])
            g.qual = '%s.<decorator>.%s' % (f.qual, w[0].name)
            region[g.qual] = g
    uses = state_uses(prog, region)
    for f, node, name, how in uses:
        ctx.ob('C15.PURE', False, ctx.where(f.module, node), f.qual,
               '%s module-level `%s`' % (how, name),
               'printing a check %s the module-level object `%s`: the text '
               'of a rule then depends on what else is being printed (by '
               'this or another thread), and identical rules can print '
               'differently' % (how, name))
    if not uses:
        ctx.ob('C15.PURE', True, ctx.where(prog.module(CHECKS),
                                           prog.module(CHECKS).tree), CHECKS,
               'module-level state in %d printer functions' % len(region),
               'none', nontrivial=False)


def check_registry(ctx):
    """Which class a leaf text parses to is a function of the text: the
    table of extension checks the leaf parser consults is computed once and
    remembered.  A path that answers with a table it does not remember (an
    empty one after a failed scan, say) makes the same text parse to
    different classes at different times: two rules that print identically
    then decide differently."""
    prog = ctx.prog
    f = prog.func(CHECKS + '.get_extensions')
    W = ctx.where(f.module, f.node)
    memo_deco = any((prog.resolve(f.module, d.func if isinstance(
        d, ast.Call) else d) or '').endswith(('functools.lru_cache',
                                               'functools.cache'))
        for d in f.node.decorator_list)
    globs = [nm for n in ast.walk(f.node) if isinstance(n, ast.Global)
             for nm in n.names]
    if memo_deco and not globs:
        ctx.ob('C15.REGISTRY', True, W, f.qual, 'extension table',
               'memoised by functools')
        return
    if len(globs) != 1:
        raise AnalysisError(
            '%s keeps the table of extension checks in a way that is not '
            'read (no single module-level cache name)' % f.qual)
    g = globs[0]
    from ..dte import inline_helpers
    t = Table(prog, f, inline=inline_helpers(prog, modules={CHECKS},
                                             classes=False), comps=False)
    kept = set()
    for n in ast.walk(f.node):
        if isinstance(n, ast.Assign) and any(
                isinstance(x, ast.Name) and x.id == g for x in n.targets):
            kept.add(U(n.value))
    bad = None
    n_ret = 0
    for p in t.paths:
        if p.outcome.kind != 'return' or p.outcome.expr is None:
            continue            # a failed scan that propagates decides
            #                     nothing
        n_ret += 1
        e = t.expand(p.outcome.expr)
        # what the cache name holds when the path returns
        held = p.env.get(g) if isinstance(p.env, dict) else None
        if U(e) == g and held is None:
            continue
        if held is not None and U(t.expand(held)) == U(e):
            continue
        bad = bad or (p, U(e)[:60])
    ok = bad is None and n_ret > 0
    ctx.ob('C15.REGISTRY', ok, '%s:%d' % (W.split(':')[0],
                                          bad[0].outcome.line) if bad
           else W, f.qual,
           'extension table (%d return paths)' % n_ret if ok else
           'return ' + bad[1],
           'every answer is the remembered table `%s`' % g if ok else
           'a path answers with `%s`, which is not the table remembered in '
           '`%s` (path: %s): the classes leaf texts parse to can change '
           'between two parses of the same text' % (
               bad[1], g, bad[0].cond_text()[-160:]))


MEMO_DECORATORS = ('lru_cache', 'cache', 'cached', 'memoize', 'memoized')


def check_fresh(ctx):
    """A parse hands out a tree of its own.  And / Or nodes are mutable
    (add_check, pop_check are public): a parser function that remembers its
    results - a memoising decorator - gives every text that prints alike the
    same object, and an edit through one holder changes what the printed
    form of all the others reparses to."""
    prog = ctx.prog
    mod = prog.module(PARSER)
    mutable = sorted(
        c.qual.rsplit('.', 1)[-1] for c in prog.classes.values()
        if c.module.name == CHECKS and any(
            m in c.methods for m in ('add_check', 'pop_check')))
    n = 0
    for f in mod.functions.values():
        n += 1
        memo = [d for d in f.node.decorator_list
                if U(d.func if isinstance(d, ast.Call) else d).split(
                    '.')[-1] in MEMO_DECORATORS]
        if memo:
            # ... unless every caller takes a deep copy of what it gets
            from ..util import parent_map
            sites = []
            for g in prog.functions.values():
                pm = None
                for c in ast.walk(g.node):
                    if isinstance(c, ast.Call) and prog.callee_of(g, c) is f:
                        pm = pm or parent_map(g.node)
                        up = pm.get(c)
                        sites.append(isinstance(up, ast.Call) and U(
                            up.func) in ('copy.deepcopy', 'deepcopy'))
            if sites and all(sites):
                memo = []
        ctx.ob('C15.FRESH', not memo, ctx.where(f.module, f.node), f.qual,
               'decorators %s' % [U(d)[:40] for d in f.node.decorator_list],
               'parses afresh on every call' if not memo else
               'the parser function %s remembers its results (%s): two '
               'parses of texts that print alike share one tree, and %s '
               'nodes can be edited in place (add_check / pop_check), so '
               'print -> reparse no longer gives an equivalent rule once one '
               'holder edits its tree' % (f.name, U(memo[0])[:40],
                                          ' / '.join(mutable) or 'And/Or'))
    ctx.floor('C15.FRESH', n, 3, 'parser functions')


def check(ctx):
    ctx.use(CHECKS, PARSER, POLICY)
    check_fresh(ctx)
    ctx.explain('C15: printer formats are extracted from every __str__ and '
                'checked against the reader\'s tokenizer facts; over all '
                'trees the reducer table can produce from sentences up to '
                'the bound, print (extracted formats) -> tokenize (extracted '
                'tokenizer facts) -> reduce (extracted table) gives the same '
                'printed form and the same decisions; Rules.__str__ and '
                'RuleDefault.__eq__ are checked structurally.')
    ctx.assume('leaves contain no whitespace, parentheses at the ends or '
               'enclosing quotes (the quantifier of the property)')
    classes0 = G.check_classes(ctx.prog)
    pr0 = extract_printers(ctx, classes0)
    try:
        classes, pstate, table, effects, model = c01.grammar_model(ctx)
    except G.EffectError:
        if ctx.findings:
            return          # the printer finding explains the mismatch
        raise
    pred, rows, unknown, res = c01.accept_predicate(ctx, pstate)
    tf, en, paths = T.extract(ctx.prog)
    sides = c01.paren_sides(en, paths)
    op_ = sorted(k for k, sd in sides.items() if 'lstrip' in sd)
    cl_ = sorted(k for k, sd in sides.items() if 'rstrip' in sd)
    opens = op_[0] if len(op_) == 1 else None
    closes = cl_[0] if len(cl_) == 1 else None
    if opens is None or closes is None:
        raise AnalysisError('paren peeling not recognised in the tokenizer')
    pr = pr0
    check_formats(ctx, pr, tf, table, opens, closes)
    # C15.TOKENS: the reader side of the agreement (tokenizer rules of C01)
    ctx._effects = effects
    nf, no = len(ctx.findings), len(ctx.obligations)
    c01.check_tokenizer(ctx, table, tf, en, paths)
    for fd in ctx.findings[nf:]:
        fd.rule = 'C15.TOKENS(' + fd.rule + ')'
    for o in ctx.obligations[no:]:
        o['rule'] = 'C15.TOKENS(' + o['rule'] + ')'
    # ... and which words are quoted strings rather than leaves (C05.QUOTED)
    from . import c05
    ctx.borrow('C15.TOKENS', c05.check_quoted, only=['C05.QUOTED'])
    ctx.borrow('C15.TOKENS', c05.check_quoted_peel, only=['C05.QUOTED'])
    # ... and a leaf is built from the two parts of the word as written:
    # the printer writes kind and match back verbatim (= C05.FALLBACK)
    def _leaf(ctx):
        try:
            c05.check_fallback(ctx)
        except AnalysisError as e:
            ctx.assume('C15.TOKENS(FALLBACK) not decided (C05 declines: %s)'
                       % str(e)[:120])
    ctx.borrow('C15.TOKENS', _leaf, only=['C05.FALLBACK'])
    check_registry(ctx)
    check_roundtrip(ctx, pr, tf, model, pred, opens, closes)
    # C15.LIST-ARITY: rules given in the old list form are parsed rules too;
    # their printed form is a fixed point only if the translator never
    # builds a one-operand and/or
    nf, no = len(ctx.findings), len(ctx.obligations)
    c01.check_list(ctx, classes, arity_rule='C15.LIST-ARITY')
    ctx.findings[nf:] = [f for f in ctx.findings[nf:]
                         if f.rule == 'C15.LIST-ARITY']
    ctx.obligations[no:] = [o for o in ctx.obligations[no:]
                            if o['rule'] == 'C15.LIST-ARITY']
    ctx.floor('C15.LIST-ARITY', len(ctx.obligations) - no, 2,
              'combinators built by the list translator')
    check_dump(ctx)
    check_eq(ctx)
    check_pure_printers(ctx, classes0)

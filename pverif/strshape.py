"""Abstract strings: sequences of literal and hole segments built from
%-formatting, str.format, f-strings, +, join."""
import ast
import re
import string

from .util import U, is_const, method_call


class Lit:
    def __init__(self, text):
        self.text = text

    def __repr__(self):
        return 'Lit(%r)' % self.text


class Hole:
    def __init__(self, source, cls=None, node=None):
        self.source = source      # text of the source expression
        self.cls = cls            # classification, filled by the client
        self.node = node

    def __repr__(self):
        return 'Hole(%s:%s)' % (self.source, self.cls)


class Join:
    """sep.join(<elem> for ... in <iter>) / sep.join(iterable)"""

    def __init__(self, sep, elem, iter_text, node=None):
        self.sep = sep            # list of segments
        self.elem = elem          # list of segments or None (raw iterable)
        self.iter_text = iter_text
        self.node = node

    def __repr__(self):
        return 'Join(%r, %r over %s)' % (self.sep, self.elem, self.iter_text)


class Unknown(Exception):
    pass


class TemplateInjection(Unknown):
    """str.format / % applied to a template that is itself built from
    values: braces or percent signs in those values are interpreted."""


_PCT = re.compile(r'%(?:\((?P<name>[^)]*)\))?(?P<conv>[sdr%])')


def parse_percent(tmpl):
    """[(literal, name_or_index_or_None)] ... for a %-template."""
    out = []
    pos = 0
    idx = 0
    for m in _PCT.finditer(tmpl):
        lit = tmpl[pos:m.start()]
        pos = m.end()
        if m.group('conv') == '%':
            out.append((lit + '%', None))
            continue
        name = m.group('name')
        if name is None:
            name = idx
            idx += 1
        out.append((lit, name))
    out.append((tmpl[pos:], None))
    if '%' in re.sub(_PCT, '', tmpl):
        raise Unknown('unsupported %% directive in %r' % tmpl)
    return out


def segments(expr, hook=None, depth=0):
    """Evaluate a string-valued expression to a list of segments.

    hook(expr) -> list of segments or None lets the client classify calls /
    attribute reads (sanitizers, serializers, sources).
    """
    if depth > 40:
        raise Unknown('expression too deep')
    if hook is not None:
        r = hook(expr)
        if r is not None:
            return r
    if isinstance(expr, ast.Constant):
        if isinstance(expr.value, str):
            return [Lit(expr.value)]
        return [Lit(str(expr.value))]
    if isinstance(expr, ast.IfExp) and isinstance(expr.test, ast.Constant):
        return segments(expr.body if expr.test.value else expr.orelse, hook,
                        depth + 1)
    if isinstance(expr, ast.BinOp) and isinstance(expr.op, ast.Add):
        return segments(expr.left, hook, depth + 1) + segments(
            expr.right, hook, depth + 1)
    if isinstance(expr, ast.BinOp) and isinstance(expr.op, ast.Mult):
        for a, b in ((expr.left, expr.right), (expr.right, expr.left)):
            if isinstance(a, ast.Constant) and isinstance(a.value, str) \
                    and isinstance(b, ast.Constant) and isinstance(
                        b.value, int) and 0 <= b.value <= 64:
                return [Lit(a.value * b.value)]
    if isinstance(expr, ast.BinOp) and isinstance(expr.op, ast.Mod) and \
            isinstance(expr.left, ast.Constant) and isinstance(
                expr.left.value, str):
        parts = parse_percent(expr.left.value)
        right = expr.right
        out = []
        for lit, name in parts:
            if lit:
                out.append(Lit(lit))
            if name is None:
                continue
            if isinstance(name, str):
                if not isinstance(right, ast.Dict):
                    raise Unknown('named % template without a dict literal')
                val = None
                for k, v in zip(right.keys, right.values):
                    if is_const(k, name):
                        val = v
                if val is None:
                    raise Unknown('missing key %r in % dict' % name)
            else:
                if isinstance(right, ast.Tuple):
                    if name >= len(right.elts):
                        raise Unknown('too few % arguments')
                    val = right.elts[name]
                else:
                    val = right
            out.extend(segments(val, hook, depth + 1))
        return out
    if isinstance(expr, ast.JoinedStr):
        out = []
        for v in expr.values:
            if isinstance(v, ast.Constant):
                out.append(Lit(v.value))
            elif isinstance(v, ast.FormattedValue):
                out.extend(segments(v.value, hook, depth + 1))
        return out
    if isinstance(expr, ast.Call):
        mc = method_call(expr)
        if mc and mc[1] == 'format' and not isinstance(
                mc[0], ast.Constant) and isinstance(
                    mc[0], (ast.BinOp, ast.JoinedStr, ast.Name)):
            recv = merge(segments(mc[0], hook, depth + 1))
            if recv and all(isinstance(x, Lit) for x in recv):
                tmpl = ast.Constant(value=''.join(x.text for x in recv))
                return segments(ast.Call(
                    func=ast.Attribute(value=tmpl, attr='format',
                                       ctx=ast.Load()),
                    args=expr.args, keywords=expr.keywords), hook, depth + 1)
            vals = [x for x in recv if not isinstance(x, Lit)]
            if vals and any(isinstance(x, Lit) and '{' in x.text
                            for x in recv):
                raise TemplateInjection(
                    'str.format is applied to a template that already '
                    'holds the value %s: braces in that value are read as '
                    'format fields (KeyError / IndexError, or `{{` turned '
                    'into `{`)' % getattr(vals[0], 'source', '?')[:60])
        if mc and mc[1] == 'format' and isinstance(mc[0], ast.Constant) and \
                isinstance(mc[0].value, str):
            out = []
            auto = 0
            try:
                parsed = list(string.Formatter().parse(mc[0].value))
            except ValueError as e:
                raise Unknown('bad format string: %s' % e)
            for lit, field, spec, conv in parsed:
                if lit:
                    out.append(Lit(lit))
                if field is None:
                    continue
                if field == '':
                    field = str(auto)
                    auto += 1
                val = None
                if field.isdigit():
                    i = int(field)
                    if i < len(expr.args):
                        val = expr.args[i]
                else:
                    for k in expr.keywords:
                        if k.arg == field:
                            val = k.value
                if val is None:
                    raise Unknown('format field %r not found' % field)
                out.extend(segments(val, hook, depth + 1))
            return out
        if mc and mc[1] == 'join' and len(expr.args) == 1:
            sep = segments(mc[0], hook, depth + 1)
            a = expr.args[0]
            while True:
                if isinstance(a, ast.Call) and isinstance(
                        a.func, ast.Name) and a.func.id in (
                            'list', 'tuple') and len(a.args) == 1 and \
                        not a.keywords:
                    a = a.args[0]
                    continue
                if isinstance(a, ast.Name) and hook is not None and \
                        getattr(hook, 'deref', None) is not None:
                    # a sequence built earlier and kept under a name
                    d = hook.deref(a)
                    if d is not None and d is not a:
                        a = d
                        continue
                break
            if isinstance(a, (ast.List, ast.Tuple)) and not a.elts and \
                    hook is not None and getattr(hook, 'deref', None):
                # (named sequences are followed with what was appended to
                # them: an empty one is empty)
                return []
            if isinstance(a, ast.BinOp) and isinstance(a.op, ast.Add) and \
                    not merge(sep):
                # pieces of a sequence glued with nothing in between: the
                # pieces one after the other
                def glued(x):
                    if isinstance(x, (ast.List, ast.Tuple)) and not x.elts:
                        return []
                    return segments(ast.Call(
                        func=expr.func, args=[x], keywords=[]), hook,
                        depth + 1)
                return glued(a.left) + glued(a.right)
            if isinstance(a, ast.Call) and isinstance(a.func, ast.Name) \
                    and a.func.id == 'map' and len(a.args) == 2 and \
                    not a.keywords:
                # map(f, xs) = (f(x) for x in xs)
                x = ast.Name(id='_x', ctx=ast.Load())
                return [Join(sep, segments(
                    ast.Call(func=a.args[0], args=[x], keywords=[]), hook,
                    depth + 1), U(a.args[1]), expr)]
            if isinstance(a, (ast.GeneratorExp, ast.ListComp)) and len(
                    a.generators) == 1 and not a.generators[0].ifs and \
                    isinstance(a.generators[0].target, ast.Name) and \
                    isinstance(a.generators[0].iter, (ast.List, ast.Tuple)) \
                    and 0 < len(a.generators[0].iter.elts) <= 8 and not any(
                        isinstance(x, ast.Starred)
                        for x in a.generators[0].iter.elts):
                # a comprehension over a display: one element per entry
                import copy
                var = a.generators[0].target.id

                class _Put(ast.NodeTransformer):
                    def __init__(self, val):
                        self.val = val

                    def visit_Name(self, n):
                        return copy.deepcopy(self.val) if n.id == var else n
                elts = [_Put(x).visit(copy.deepcopy(a.elt))
                        for x in a.generators[0].iter.elts]
                return segments(ast.Call(func=expr.func, args=[
                    ast.List(elts=elts, ctx=ast.Load())], keywords=[]),
                    hook, depth + 1)
            if isinstance(a, (ast.GeneratorExp, ast.ListComp)) and len(
                    a.generators) == 1:
                return [Join(sep, segments(a.elt, hook, depth + 1),
                             U(a.generators[0].iter), expr)]
            if isinstance(a, (ast.List, ast.Tuple)) and a.elts and not any(
                    isinstance(x, ast.Starred) for x in a.elts):
                # a display: its pieces in order, the separator in between
                out = []
                for i, x in enumerate(a.elts):
                    if i:
                        out.extend(sep)
                    out.extend(segments(x, hook, depth + 1))
                return out
            if isinstance(a, ast.BinOp):
                # sequences assembled in code (a + b): their order and
                # contents are not read here
                raise Unknown('join over the assembled sequence %s'
                              % U(a)[:60])
            return [Join(sep, None, U(a), expr)]
        if isinstance(expr.func, ast.Name) and expr.func.id == 'str' and \
                len(expr.args) == 1:
            return segments(expr.args[0], hook, depth + 1)
    return [Hole(U(expr), None, expr)]


def merge(segs):
    out = []
    for s in segs:
        if isinstance(s, Lit) and out and isinstance(out[-1], Lit):
            out[-1] = Lit(out[-1].text + s.text)
        elif isinstance(s, Lit) and not s.text:
            continue
        else:
            out.append(s)
    return out


def shape_text(segs):
    out = []
    for s in merge(segs):
        if isinstance(s, Lit):
            out.append(s.text)
        elif isinstance(s, Hole):
            out.append('<%s>' % (s.cls or s.source))
        else:
            out.append('<join %r of %s>' % (shape_text(s.sep), s.iter_text))
    return ''.join(out)

"""Shared extraction around Enforcer.load_rules (C09-C12, C20)."""
import ast

from . import PKG
from .dte import Table
from .effects import writes_cb, effects_of
from .model import AnalysisError
from .util import U, method_call, walk_no_nested

POLICY = PKG + '.policy'
ENF = POLICY + '.Enforcer'
CACHE = PKG + '._cache_handler'


class Roles:
    pass


def _empty_literal(v):
    if v is None:
        return True
    if isinstance(v, ast.Dict) and not v.keys:
        return True
    return isinstance(v, ast.Call) and not v.args and not v.keywords


def check_record_wins(ctx, rule):
    """The record of file-provided rules follows the same precedence as the
    effective rule set: an entry from the file being recorded replaces one
    recorded earlier under the same name."""
    prog = ctx.prog
    r = roles(ctx)
    rec = r.recorder
    t = Table(prog, rec, comps=True)
    S = 'self.file_rules'
    F = ctx.where(rec.module, rec.node).split(':')[0]
    seen = {}

    def old_wins(v):
        v = t.expand(v)
        if isinstance(v, ast.Dict):
            # {**new, **old}: later entries win
            idx = [i for i, (k, x) in enumerate(zip(v.keys, v.values))
                   if k is None and U(x) == S]
            return bool(idx) and idx[-1] > 0
        if isinstance(v, ast.BinOp) and isinstance(v.op, ast.BitOr):
            return U(v.right) == S
        if isinstance(v, ast.Call) and isinstance(v.func, ast.Name) and \
                v.func.id == 'dict':
            return any(k.arg is None and U(k.value) == S
                       for k in v.keywords)
        if isinstance(v, ast.Call) and U(v.func).endswith('ChainMap') \
                and v.args:
            return U(v.args[0]) == S and len(v.args) > 1
        return False
    for p in t.paths:
        for e in p.events:
            verdict = None
            if e.kind == 'store' and U(e.node) == S:
                verdict = ('rebind %s' % U(t.expand(e.value))[:70],
                           not old_wins(e.value))
            elif e.kind == 'store' and isinstance(e.node, ast.Subscript) \
                    and U(e.node.value) == S:
                verdict = ('entry store', True)
            elif e.kind in ('call', 'maycall'):
                mc = method_call(e.node)
                if mc and U(t.expand(mc[0])) == S and mc[1] in (
                        'update', 'setdefault'):
                    verdict = (mc[1], mc[1] == 'update')
            if verdict is None:
                continue
            key = (e.line, verdict[0])
            if key in seen:
                continue
            seen[key] = verdict[1]
            ctx.ob(rule, verdict[1], '%s:%d' % (F, e.line), e.frame or
                   rec.qual, 'file-rule record: %s' % verdict[0],
                   'the file being recorded wins over earlier records'
                   if verdict[1] else
                   'an entry recorded from an earlier file wins over the one '
                   'from the file being loaded, while the effective rule set '
                   'is last-file-wins: the record consulted for the '
                   'deprecated-name override no longer names the operator\'s '
                   'effective override')
    ctx.floor(rule, len(seen), 1, 'writes of the file-rule record')
    # ... and every entry of the file is recorded, whatever its value (an
    # empty check string is a rule too: always allow)
    skipped = None
    n_el = 0
    for p in t.paths:
        if p.outcome.kind == 'raise':
            continue
        loops = [c for c in p.conds if c.kind == 'loop' and c.pol]
        if not loops:
            continue
        n_el += 1
        wrote = any((e.kind == 'store' and (
            (isinstance(e.node, ast.Subscript) and U(e.node.value) == S)
            or U(e.node) == S)) or (
                e.kind in ('call', 'maycall') and method_call(e.node)
                and U(t.expand(method_call(e.node)[0])) == S
                and method_call(e.node)[1] in ('update', 'setdefault'))
            for e in p.events)
        # a comprehension / dict built aside and stored later counts through
        # its accumulator
        built = any(e.kind == 'store' and isinstance(
            e.node, ast.Subscript) and isinstance(
                e.node.value, ast.Name) and e.node.value.id.startswith(
                    'SYM_m') for e in p.events)
        if not wrote and not built and skipped is None:
            skipped = p
    ctx.ob(rule, skipped is None, ctx.where(rec.module, rec.node), rec.qual,
           'every entry of the file is recorded (%d element paths)' % n_el,
           'no entry of a policy file is left out of the record'
           if skipped is None else
           'an entry of the policy file can be left out of the file-rule '
           'record (path: %s) although it is applied to the rule set: the '
           'deprecated-name override test then misses an operator override'
           % skipped.cond_text()[-200:])


def roles(ctx):
    cache = ctx.__dict__.setdefault('_cache', {})
    if 'load_roles' in cache:
        return cache['load_roles']
    prog = ctx.prog
    r = Roles()
    r.load_rules = prog.func(ENF + '.load_rules')
    enf = prog.cls(ENF)
    r.loader = r.recorder = r.walker = r.dir_updated = r.deprecated = None
    r.get_path = None
    for m in enf.methods.values():
        for n in walk_no_nested(m.node):
            if isinstance(n, ast.Call) and prog.resolve(
                    m.module, n.func) == CACHE + '.read_cached_file':
                r.loader = m
        for e in effects_of(m):
            if (e.kind == 'substore' or e.kind in (
                    'mutcall:update', 'mutcall:setdefault')) and \
                    e.path == 'self.file_rules' and m.name != 'clear':
                r.recorder = m
    if r.loader is None:
        raise AnalysisError('policy-file loader (caller of read_cached_file) '
                            'not found')
    if r.recorder is None:
        # a recorder that builds the record aside and rebinds the attribute
        for m in enf.methods.values():
            if m.name in ('__init__', 'clear'):
                continue
            for e in effects_of(m):
                if e.kind == 'store' and e.path == 'self.file_rules' and \
                        not _empty_literal(getattr(e.node, 'value', None)):
                    r.recorder = m
    if r.recorder is None:
        raise AnalysisError('file-rule recorder not found')
    lr = r.load_rules
    # helpers of load_rules inside the class (wrappers, extracted loops)
    # are searched too: everything reachable from load_rules except the
    # loader / recorder themselves
    bodies = [f for q, f in prog.region(
        lr, stop=(r.loader.qual, r.recorder.qual,
                  ENF + '.check_rules', ENF + '.set_rules')).items()
        if f.cls is enf]
    if lr not in bodies:
        bodies.insert(0, lr)
    r.bodies = bodies
    r.load_body = lr
    for b in bodies:
        for n in walk_no_nested(b.node):
            if isinstance(n, ast.For) and 'policy_dirs' in U(n.iter):
                r.load_body = b
    for b in bodies:
        for call, g in prog.callees(b):
            if not isinstance(call, ast.Call):
                continue
            # walker: receives the loader as an argument
            if any(isinstance(a, ast.Attribute) and U(a) == 'self.' +
                   r.loader.name for a in call.args) and g is not r.loader:
                cal = prog.callee_of(b, call)
                if cal is not None:
                    r.walker = cal
            if any(U(a) == 'self._policy_dir_mtimes' or U(a).endswith(
                    '_dir_mtimes') for a in call.args):
                cal = prog.callee_of(b, call)
                if cal is not None:
                    r.dir_updated = cal
        for call, g in prog.callees(b):
            if isinstance(call, ast.Call) and g.cls is enf and any(
                    isinstance(x, ast.Call) and method_call(x, 'find_file')
                    for x in ast.walk(g.node)) and g is not lr and not any(
                        isinstance(x, ast.For) for x in ast.walk(g.node)):
                r.get_path = g
    if r.dir_updated is None:
        # by what it does: the callee of a load body that reads modification
        # times (and is not the loader / walker / path lookup)
        for b in bodies:
            for call, g in prog.callees(b):
                if not isinstance(call, ast.Call) or g in (
                        r.loader, r.walker, r.get_path, r.recorder, lr):
                    continue
                if any(isinstance(x, ast.Call) and (prog.resolve(
                        f2.module, x.func) or '') in (
                            'ext:os.path.getmtime', 'ext:os.stat',
                            'ext:os.scandir')
                        for f2 in prog.region(g).values()
                        for x in ast.walk(f2.node)) and r.loader.qual \
                        not in prog.region(g):
                    r.dir_updated = g
    if r.get_path is None:
        raise AnalysisError('policy path lookup helper not found')
    if r.walker is None:
        raise AnalysisError('policy-directory walker not found')
    if r.dir_updated is None:
        raise AnalysisError('directory freshness test not found')
    # deprecated-rule handler: the Enforcer method that consults the option
    # enforce_new_defaults (the top-most one if a helper reads it too)
    cands = [m for m in enf.methods.values() if m is not lr and any(
        isinstance(x, ast.Attribute) and x.attr == 'enforce_new_defaults'
        for x in ast.walk(m.node))]
    # ... or reaches such a method (or a plain function of the module that
    # reads the option) and is handed the default to decide on
    direct = list(cands) + [g for g in lr.module.functions.values()
                            if g.cls is None and any(
                                isinstance(x, ast.Attribute)
                                and x.attr == 'enforce_new_defaults'
                                for x in ast.walk(g.node))]
    for m in enf.methods.values():
        if m is lr or m in cands or len(m.params) < 2 or m.name in (
                '__init__', 'enforce', 'authorize', '__call__'):
            continue
        reg = prog.region(m, stop=(lr.qual,))
        if lr.qual in reg or ENF + '.enforce' in reg or \
                r.loader.qual in reg or r.recorder.qual in reg:
            continue            # a load body, not a per-default decision
        if any(d.qual in reg for d in direct):
            cands.append(m)
    if len(cands) > 1:
        inner = set()
        for m in cands:
            for q, g in prog.region(m).items():
                if g is not m and g in cands:
                    inner.add(g.qual)
        top = [m for m in cands if m.qual not in inner]
        cands = top or cands
    if cands:
        r.deprecated = sorted(cands, key=lambda m: m.qual)[0]
    if r.deprecated is None:
        raise AnalysisError('deprecated-rule handler (the method consulting '
                            'enforce_new_defaults) not found')
    cache['load_roles'] = r
    return r


def load_table(ctx):
    cache = ctx.__dict__.setdefault('_cache', {})
    if 'load_table' in cache:
        return cache['load_table']
    prog = ctx.prog
    r = roles(ctx)
    role_fns = {x.qual for x in (r.loader, r.recorder, r.walker,
                                 r.dir_updated, r.deprecated, r.get_path)
                if x is not None} | {ENF + '.check_rules',
                                     ENF + '.set_rules'}
    def direct_relevant(b):
        for call, g in prog.callees(b):
            if isinstance(call, ast.Call) and g.qual in role_fns:
                return True
        for e in effects_of(b):
            if e.path.startswith(('self.rules', 'self.file_rules')):
                return True
        return False
    helper_quals = set()
    cand = [b for b in r.bodies if b is not r.load_rules
            and b.qual not in role_fns]
    changed = True
    while changed:
        changed = False
        for b in cand:
            if b.qual in helper_quals:
                continue
            if direct_relevant(b) or any(
                    isinstance(c, ast.Call) and g.qual in helper_quals
                    for c, g in prog.callees(b)):
                helper_quals.add(b.qual)
                changed = True
    r.helper_quals = helper_quals

    def inline(call, frame):
        g = prog.callee_of(frame, call)
        if g is None or g.qual not in helper_quals:
            return None
        return g
    t = Table(prog, r.load_rules, inline=inline if helper_quals else None,
              writes=writes_cb(prog), max_paths=400000, comps=True)
    t.roles = r
    cache['load_table'] = t
    return t


def classify_event(t, e):
    """MAIN / DIR / MERGE / RESET-RULES / RESET-FILE / UPDATED / other."""
    prog = t.prog
    r = t.roles
    lr = r.load_rules
    if e.kind == 'call':
        fr = prog.functions.get(e.frame, lr)
        g = prog.callee_of(fr, e.node)
        if g is r.loader:
            return 'MAIN'
        if g is r.walker:
            return 'DIR'
        if g is r.dir_updated:
            return 'UPDATED'
        if g is r.deprecated:
            return 'DEPRECATED'
        if g is r.get_path:
            return 'GETPATH'
        if g is not None and g.qual == ENF + '.check_rules':
            return 'CHECK'
        return None
    if e.kind == 'store':
        n = e.node
        if isinstance(n, ast.Subscript) and U(n.value) == 'self.rules':
            return 'MERGE'
        if isinstance(n, ast.Attribute) and U(n) == 'self.rules':
            return 'RESET-RULES'
        if isinstance(n, ast.Attribute) and U(n) == 'self.file_rules':
            return 'RESET-FILE'
    return None


def _self_attrs(expr):
    return {'self.' + n.attr for n in ast.walk(expr)
            if isinstance(n, ast.Attribute) and isinstance(n.value, ast.Name)
            and n.value.id == 'self'}


def check_merge_memo(ctx, rule):
    """What a load stores for a registered default is computed from the
    default, the file-rule record and the configuration of *this* load: no
    decision in the default merge, or in the deprecated-rule handler, reads
    enforcer state that the merge itself writes (a memo, a once-only flag).
    Such state outlives the load, so a second load - or a load after the
    files changed - would store something else than a first one."""
    from .dte import inline_helpers
    prog = ctx.prog
    t = load_table(ctx)
    r = t.roles
    lr = r.load_rules
    F = ctx.where(lr.module, lr.node).split(':')[0]
    ALLOWED = {'self.rules'}
    bad = None
    n = 0

    def written_by(ev_list, tab):
        w = set()
        for e in ev_list:
            if e.kind in ('store', 'aug', 'del'):
                w |= _self_attrs(tab.expand(e.node))
            elif e.kind in ('call', 'maycall'):
                mc = method_call(e.node)
                from .effects import MUTATORS
                if mc and mc[1] in MUTATORS:
                    w |= _self_attrs(tab.expand(mc[0]))
        return w
    # (1) the merge loop of load_rules
    seg_writes = set()
    segs = []
    for p in t.paths:
        start = None
        for e in p.events:
            if e.kind == 'iter' and 'self.registered_rules' in U(
                    t.expand(e.node)):
                start = e
                break
        if start is None:
            continue
        i0 = p.events.index(start)
        end = len(p.conds)
        evs = []
        lc = p.conds[start.nconds] if start.nconds < len(p.conds) else None
        if lc is not None and lc.kind == 'loop' and not lc.pol:
            continue            # no default to merge on this path
        for e in p.events[i0 + 1:]:
            if e.kind == 'loopdone' and e.line == start.line and U(
                    e.node) == U(start.node):
                end = e.nconds
                break
            evs.append(e)
        seg_writes |= written_by(evs, t) - ALLOWED
        outcome = tuple(U(t.expand(e.value)) for e in evs
                        if classify_event(t, e) == 'MERGE')
        segs.append((p.conds[start.nconds:end], outcome))

    def decide(sigs, memo, tab, qual):
        """memo conditions that change the outcome: two paths that agree on
        every other condition, differ on a memo condition, and store /
        return something different."""
        nonlocal n
        uniq = {}
        for conds, outcome in sigs:
            cs = [(U(tab.expand(c.expr)), c.pol, c.line,
                   bool(_self_attrs(tab.expand(c.expr)) & memo))
                  for c in conds if c.kind == 'test']
            uniq.setdefault((tuple((x[0], x[1], x[3]) for x in cs),
                             outcome), cs)
        n += sum(len(cs) for cs in uniq.values())
        items = list(uniq.items())
        for a in range(len(items)):
            (ka, oa), ca = items[a]
            for b in range(a + 1, len(items)):
                (kb, ob), cb = items[b]
                if oa == ob:
                    continue
                pa = {x[0]: x for x in ca}
                clash = [x for x in cb if x[0] in pa and
                         pa[x[0]][1] != x[1]]
                if clash and all(x[3] for x in clash):
                    x = clash[0]
                    hit = sorted(_self_attrs(ast.parse(
                        x[0], mode='eval').body) & memo)
                    return (x[2], qual, hit[0] if hit else '?', x[0][:80])
        return None
    bad = decide(segs, seg_writes, t, lr.qual)
    # (2) the deprecated-rule handler
    h = r.deprecated
    if h is not None:
        th = Table(prog, h, inline=inline_helpers(prog, modules={POLICY},
                                                  classes=False),
                   max_depth=3, max_paths=100000)
        hw = set()
        for p in th.paths:
            hw |= written_by(p.events, th)
        sigs = []
        for p in th.paths:
            o = p.outcome
            sigs.append((p.conds, (o.kind, U(th.expand(o.expr))
                                   if o.expr is not None else None)))
        bad = bad or decide(sigs, hw, th, h.qual)
    ctx.ob(rule, bad is None, '%s:%d' % (F, bad[0]) if bad else
           ctx.where(lr.module, lr.node), bad[1] if bad else lr.qual,
           'default merge decisions (%d conditions)' % n,
           'no merge decision reads state the merge writes' if bad is None
           else 'the default merge decides on %s (`%s`), which the merge '
           'itself writes and which outlives the load: a later load - after '
           'the policy files changed, or simply a second one - stores '
           'something else for the same default than a first load would'
           % (bad[2], bad[3]))
    ctx.floor(rule, n, 3, 'merge conditions')


def check_conf_source(ctx, rule):
    """Options are read from the configuration object the enforcer was
    built with (`self.conf`, `enforcer.conf`): a read of the process-wide
    `cfg.CONF` inside the library's functions decides for an enforcer on
    somebody else's settings."""
    prog = ctx.prog
    n = 0
    bad = 0
    for mn in (PKG + '.policy', PKG + '._checks', PKG + '._external',
               PKG + '._cache_handler'):
        try:
            m = prog.module(mn)
        except Exception:
            continue
        for f in sorted(m.functions.values(), key=lambda x: x.qual):
            n += 1
            for x in ast.walk(f.node):
                if isinstance(x, ast.Attribute) and x.attr == 'CONF' and \
                        isinstance(x.ctx, ast.Load) and (prog.resolve(
                            f.module, x.value) or '').endswith(
                                'oslo_config.cfg'):
                    bad += 1
                    ctx.ob(rule, False, ctx.where(f.module, x), f.qual,
                           U(x), 'reads the process-wide configuration '
                           'object instead of the one the enforcer was '
                           'given: an enforcer built on its own ConfigOpts '
                           'is decided on the global settings')
    if not bad:
        ctx.ob(rule, True, ctx.where(prog.module(PKG + '.policy'),
                                     prog.module(PKG + '.policy').tree),
               PKG + '.policy', 'configuration reads in %d functions' % n,
               'no function reads the global cfg.CONF')

"""Shared extraction around Enforcer.load_rules (C09-C12, C20)."""
import ast

from . import PKG
from .dte import Table
from .effects import writes_cb, effects_of
from .model import AnalysisError
from .util import U, method_call, walk_no_nested

POLICY = PKG + '.policy'
ENF = POLICY + '.Enforcer'
CACHE = PKG + '._cache_handler'


class Roles:
    pass


def roles(ctx):
    cache = ctx.__dict__.setdefault('_cache', {})
    if 'load_roles' in cache:
        return cache['load_roles']
    prog = ctx.prog
    r = Roles()
    r.load_rules = prog.func(ENF + '.load_rules')
    enf = prog.cls(ENF)
    r.loader = r.recorder = r.walker = r.dir_updated = r.deprecated = None
    r.get_path = None
    for m in enf.methods.values():
        for n in walk_no_nested(m.node):
            if isinstance(n, ast.Call) and prog.resolve(
                    m.module, n.func) == CACHE + '.read_cached_file':
                r.loader = m
        for e in effects_of(m):
            if (e.kind == 'substore' or e.kind in (
                    'mutcall:update', 'mutcall:setdefault')) and \
                    e.path == 'self.file_rules' and m.name != 'clear':
                r.recorder = m
    if r.loader is None:
        raise AnalysisError('policy-file loader (caller of read_cached_file) '
                            'not found')
    if r.recorder is None:
        raise AnalysisError('file-rule recorder not found')
    lr = r.load_rules
    # helpers of load_rules inside the class (wrappers, extracted loops)
    # are searched too: everything reachable from load_rules except the
    # loader / recorder themselves
    bodies = [f for q, f in prog.region(
        lr, stop=(r.loader.qual, r.recorder.qual,
                  ENF + '.check_rules', ENF + '.set_rules')).items()
        if f.cls is enf]
    if lr not in bodies:
        bodies.insert(0, lr)
    r.bodies = bodies
    r.load_body = lr
    for b in bodies:
        for n in walk_no_nested(b.node):
            if isinstance(n, ast.For) and 'policy_dirs' in U(n.iter):
                r.load_body = b
    for b in bodies:
        for call, g in prog.callees(b):
            if not isinstance(call, ast.Call):
                continue
            # walker: receives the loader as an argument
            if any(isinstance(a, ast.Attribute) and U(a) == 'self.' +
                   r.loader.name for a in call.args) and g is not r.loader:
                cal = prog.callee_of(b, call)
                if cal is not None:
                    r.walker = cal
            if any(U(a) == 'self._policy_dir_mtimes' or U(a).endswith(
                    '_dir_mtimes') for a in call.args):
                cal = prog.callee_of(b, call)
                if cal is not None:
                    r.dir_updated = cal
        for call, g in prog.callees(b):
            if isinstance(call, ast.Call) and g.cls is enf and any(
                    isinstance(x, ast.Call) and method_call(x, 'find_file')
                    for x in ast.walk(g.node)) and g is not lr and not any(
                        isinstance(x, ast.For) for x in ast.walk(g.node)):
                r.get_path = g
    if r.get_path is None:
        raise AnalysisError('policy path lookup helper not found')
    if r.walker is None:
        raise AnalysisError('policy-directory walker not found')
    if r.dir_updated is None:
        raise AnalysisError('directory freshness test not found')
    # deprecated-rule handler: the Enforcer method that consults the option
    # enforce_new_defaults (the top-most one if a helper reads it too)
    cands = [m for m in enf.methods.values() if m is not lr and any(
        isinstance(x, ast.Attribute) and x.attr == 'enforce_new_defaults'
        for x in ast.walk(m.node))]
    if len(cands) > 1:
        inner = set()
        for m in cands:
            for q, g in prog.region(m).items():
                if g is not m and g in cands:
                    inner.add(g.qual)
        top = [m for m in cands if m.qual not in inner]
        cands = top or cands
    if cands:
        r.deprecated = sorted(cands, key=lambda m: m.qual)[0]
    if r.deprecated is None:
        raise AnalysisError('deprecated-rule handler (the method consulting '
                            'enforce_new_defaults) not found')
    cache['load_roles'] = r
    return r


def load_table(ctx):
    cache = ctx.__dict__.setdefault('_cache', {})
    if 'load_table' in cache:
        return cache['load_table']
    prog = ctx.prog
    r = roles(ctx)
    role_fns = {x.qual for x in (r.loader, r.recorder, r.walker,
                                 r.dir_updated, r.deprecated, r.get_path)
                if x is not None} | {ENF + '.check_rules',
                                     ENF + '.set_rules'}
    def direct_relevant(b):
        for call, g in prog.callees(b):
            if isinstance(call, ast.Call) and g.qual in role_fns:
                return True
        for e in effects_of(b):
            if e.path.startswith(('self.rules', 'self.file_rules')):
                return True
        return False
    helper_quals = set()
    cand = [b for b in r.bodies if b is not r.load_rules
            and b.qual not in role_fns]
    changed = True
    while changed:
        changed = False
        for b in cand:
            if b.qual in helper_quals:
                continue
            if direct_relevant(b) or any(
                    isinstance(c, ast.Call) and g.qual in helper_quals
                    for c, g in prog.callees(b)):
                helper_quals.add(b.qual)
                changed = True
    r.helper_quals = helper_quals

    def inline(call, frame):
        g = prog.callee_of(frame, call)
        if g is None or g.qual not in helper_quals:
            return None
        return g
    t = Table(prog, r.load_rules, inline=inline if helper_quals else None,
              writes=writes_cb(prog), max_paths=400000)
    t.roles = r
    cache['load_table'] = t
    return t


def classify_event(t, e):
    """MAIN / DIR / MERGE / RESET-RULES / RESET-FILE / UPDATED / other."""
    prog = t.prog
    r = t.roles
    lr = r.load_rules
    if e.kind == 'call':
        fr = prog.functions.get(e.frame, lr)
        g = prog.callee_of(fr, e.node)
        if g is r.loader:
            return 'MAIN'
        if g is r.walker:
            return 'DIR'
        if g is r.dir_updated:
            return 'UPDATED'
        if g is r.deprecated:
            return 'DEPRECATED'
        if g is r.get_path:
            return 'GETPATH'
        if g is not None and g.qual == ENF + '.check_rules':
            return 'CHECK'
        return None
    if e.kind == 'store':
        n = e.node
        if isinstance(n, ast.Subscript) and U(n.value) == 'self.rules':
            return 'MERGE'
        if isinstance(n, ast.Attribute) and U(n) == 'self.rules':
            return 'RESET-RULES'
        if isinstance(n, ast.Attribute) and U(n) == 'self.file_rules':
            return 'RESET-FILE'
    return None

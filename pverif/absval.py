"""Finite-domain abstract evaluation of conditions.

An abstract value (AV) describes a class of runtime values by the answers to
the predicates the analysed code actually asks: truthiness, isinstance against
builtin / package classes, equality with constants, length.  ``evaluate``
answers True / False / None (unknown) for a condition expression under a
binding {subject text -> AV}.  Conditions the evaluator does not understand
are unknown, which keeps both branches feasible.
"""
import ast


class AV:
    def __init__(self, label, truthy, types=(), eq=None, length=None,
                 is_none=False, facts=None):
        self.label = label
        self.truthy = truthy            # True / False / None
        self.types = set(types)         # names: 'str','list','dict',... or
        #                                 qualified package classes
        self.eq = eq or {}              # const value -> bool ; '*' default
        self.length = length            # int, or ('ge', n), or None
        self.is_none = is_none
        self.facts = facts or {}        # free-form: text -> bool

    def __repr__(self):
        return '<AV %s>' % self.label

    def isinstance_of(self, tname):
        """True/False/None."""
        if tname in self.types:
            return True
        if tname == 'object':
            return True
        # bool is an int
        if tname == 'int' and 'bool' in self.types:
            return True
        if 'unknown' in self.types:
            return None
        return False

    def equals(self, value):
        for k, v in self.eq.items():
            if k == '*':
                continue
            if type(k) is type(value) and k == value:
                return v
        if '*' in self.eq:
            return self.eq['*']
        return None


def _tnames(prog, module, node):
    """Type expression in isinstance -> list of type names."""
    elts = node.elts if isinstance(node, ast.Tuple) else [node]
    out = []
    for e in elts:
        if isinstance(e, ast.Call) and isinstance(e.func, ast.Name) and \
                e.func.id == 'type' and len(e.args) == 1 and isinstance(
                    e.args[0], ast.Constant) and e.args[0].value is None:
            out.append('NoneType')
            continue
        r = prog.resolve(module, e) if prog is not None else None
        if r is None:
            return None
        if r.startswith('builtin:'):
            out.append(r[8:])
        elif r.startswith('ext:'):
            out.append(r[4:])
        else:
            out.append(r)
    return out


_TYPE_ALIASES = {
    'collections.abc.MutableMapping': ('dict',),
    'collections.abc.Mapping': ('dict',),
    'collections.abc.Sequence': ('list', 'tuple', 'str'),
}


class Evaluator:
    def __init__(self, prog, module, binding, oracle=None, expand=None):
        self.prog = prog
        self.module = module
        self.binding = binding      # text -> AV
        self.oracle = oracle        # callable(expr) -> True/False/None
        self.expand = expand

    def av(self, expr):
        try:
            t = ast.unparse(expr)
        except Exception:
            return None
        return self.binding.get(t)

    def ev(self, expr):
        """True / False / None."""
        if self.oracle is not None:
            r = self.oracle(expr)
            if r is not None:
                return r
        if isinstance(expr, ast.Constant):
            return bool(expr.value)
        if isinstance(expr, ast.UnaryOp) and isinstance(expr.op, ast.Not):
            r = self.ev(expr.operand)
            return None if r is None else (not r)
        if isinstance(expr, ast.BoolOp):
            vals = [self.ev(v) for v in expr.values]
            if isinstance(expr.op, ast.And):
                if any(v is False for v in vals):
                    return False
                if all(v is True for v in vals):
                    return True
                return None
            if any(v is True for v in vals):
                return True
            if all(v is False for v in vals):
                return False
            return None
        a = self.av(expr)
        if a is not None:
            return a.truthy
        if isinstance(expr, ast.Call):
            fn = expr.func
            name = fn.id if isinstance(fn, ast.Name) else None
            if name == 'isinstance' and len(expr.args) == 2:
                a = self.av(expr.args[0])
                if a is None:
                    return None
                tn = _tnames(self.prog, self.module, expr.args[1])
                if tn is None:
                    return None
                res = []
                for t in tn:
                    alts = _TYPE_ALIASES.get(t, (t,))
                    rs = [a.isinstance_of(x) for x in alts]
                    if any(r is True for r in rs):
                        res.append(True)
                    elif all(r is False for r in rs):
                        res.append(False)
                    else:
                        res.append(None)
                if any(r is True for r in res):
                    return True
                if all(r is False for r in res):
                    return False
                return None
            if name == 'bool' and len(expr.args) == 1:
                return self.ev(expr.args[0])
            if name == 'len' and len(expr.args) == 1:
                a = self.av(expr.args[0])
                if a is not None and isinstance(a.length, int):
                    return a.length != 0
                if a is not None and isinstance(a.length, tuple):
                    return True if a.length[1] >= 1 else None
            return None
        if isinstance(expr, ast.Compare) and len(expr.ops) == 1:
            op = expr.ops[0]
            l, r = expr.left, expr.comparators[0]
            if isinstance(op, (ast.NotEq, ast.IsNot, ast.NotIn)):
                pos = {ast.NotEq: ast.Eq, ast.IsNot: ast.Is,
                       ast.NotIn: ast.In}[type(op)]()
                v = self.ev(ast.Compare(left=l, ops=[pos], comparators=[r]))
                return None if v is None else (not v)
            if isinstance(op, (ast.Eq, ast.Is)):
                for x, y in ((l, r), (r, l)):
                    a = self.av(x)
                    if a is not None and isinstance(y, ast.Constant):
                        if y.value is None:
                            return a.is_none
                        if isinstance(op, ast.Is):
                            if isinstance(y.value, bool):
                                e = a.equals(y.value)
                                return e
                            return None
                        return a.equals(y.value)
                    if a is not None and isinstance(
                            y, (ast.List, ast.Tuple, ast.Dict)) and \
                            isinstance(op, ast.Eq):
                        empty = not (y.elts if not isinstance(y, ast.Dict)
                                     else y.keys)
                        tname = {ast.List: 'list', ast.Tuple: 'tuple',
                                 ast.Dict: 'dict'}[type(y)]
                        if empty:
                            if a.isinstance_of(tname) is False:
                                return False
                            if a.length == 0 and a.isinstance_of(tname):
                                return True
                            if a.length not in (0, None):
                                return False
                        return None
                # len(x) == n
                for x, y in ((l, r), (r, l)):
                    if isinstance(x, ast.Call) and isinstance(
                            x.func, ast.Name) and x.func.id == 'len' \
                            and len(x.args) == 1 and isinstance(
                                y, ast.Constant) and isinstance(op, ast.Eq):
                        a = self.av(x.args[0])
                        if a is not None and isinstance(a.length, int):
                            return a.length == y.value
                        if a is not None and isinstance(a.length, tuple):
                            if y.value < a.length[1]:
                                return False
                return None
            if isinstance(op, (ast.Lt, ast.LtE, ast.Gt, ast.GtE)):
                if isinstance(l, ast.Call) and isinstance(
                        l.func, ast.Name) and l.func.id == 'len' and \
                        len(l.args) == 1 and isinstance(r, ast.Constant):
                    a = self.av(l.args[0])
                    if a is not None and isinstance(a.length, int):
                        n, m = a.length, r.value
                        return {ast.Lt: n < m, ast.LtE: n <= m,
                                ast.Gt: n > m, ast.GtE: n >= m}[type(op)]
                return None
            if isinstance(op, ast.In):
                a = self.av(l)
                if a is not None and isinstance(r, (ast.Name, ast.Attribute)):
                    # a constant table spelled by name
                    try:
                        r = self.prog.const_expr(self.module, r,
                                                 names_ok=True) or r
                    except Exception:
                        pass
                if a is not None and isinstance(r, ast.Dict) and all(
                        isinstance(k, ast.Constant) for k in r.keys):
                    r = ast.Tuple(elts=list(r.keys), ctx=ast.Load())
                if a is not None and isinstance(
                        r, (ast.List, ast.Tuple, ast.Set)) and all(
                            isinstance(e, ast.Constant) for e in r.elts):
                    rs = [a.equals(e.value) for e in r.elts]
                    if any(x is True for x in rs):
                        return True
                    if all(x is False for x in rs):
                        return False
                return None
        return None


def fold_table_lookup(prog, module, expr, binding):
    """`TABLE[x]` where TABLE is a dict display (or a constant table spelled
    by name) with constant keys and `x` is bound to an abstract value equal
    to exactly one of them -> that entry; else `expr` unchanged."""
    class T(ast.NodeTransformer):
        def visit_Subscript(self, n):
            self.generic_visit(n)
            tab = n.value
            if isinstance(tab, (ast.Name, ast.Attribute)):
                try:
                    tab = prog.const_expr(module, tab, names_ok=True) or tab
                except Exception:
                    pass
            if not isinstance(tab, ast.Dict) or not all(
                    isinstance(k, ast.Constant) for k in tab.keys):
                return n
            try:
                a = binding.get(ast.unparse(n.slice))
            except Exception:
                a = None
            if a is None:
                return n
            hits = [v for k, v in zip(tab.keys, tab.values)
                    if a.equals(k.value) is True]
            rest = [k for k in tab.keys if a.equals(k.value) is None]
            if len(hits) == 1 and not rest:
                return hits[0]
            return n
    import copy
    return T().visit(copy.deepcopy(expr))


def feasible(paths, evaluator_for):
    """Filter paths whose every condition is not definitely contradicted.

    evaluator_for(cond) -> Evaluator (module differs per frame).
    Returns list of (path, unknown_conds).
    """
    out = []
    for p in paths:
        ok = True
        unknown = []
        for c in p.conds:
            if c.kind == 'exc':
                unknown.append(c)
                continue
            if c.kind == 'loop':
                ev = evaluator_for(c)
                a = ev.av(c.expr)
                if a is not None and a.length is not None:
                    nonempty = (a.length != 0) if isinstance(
                        a.length, int) else True
                    if nonempty != c.pol:
                        ok = False
                        break
                    continue
                unknown.append(c)
                continue
            v = evaluator_for(c).ev(c.expr)
            if v is None:
                unknown.append(c)
            elif v != c.pol:
                ok = False
                break
        if ok:
            out.append((p, unknown))
    return out

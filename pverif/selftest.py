"""Self-test of the checkers, both ways (not part of any property verdict).

Every variant is a textual edit applied to a scratch copy of the *current*
/repo package (so the corpus follows the code).  A must-fire variant has to be
reported by the named property (and, when given, rule); a must-stay-silent
variant (behaviour preserving) must leave every listed check at exit 0.
Scratch copies live under /root/.cache/verif-selftest-* and are removed.
"""
import contextlib
import io
import os
import shutil
import sys
import tempfile
import time
from concurrent.futures import ProcessPoolExecutor

from . import REPO, PKG


def make_copy(dst):
    os.makedirs(dst, exist_ok=True)
    shutil.copytree(os.path.join(REPO, PKG), os.path.join(dst, PKG),
                    ignore=shutil.ignore_patterns('tests', '__pycache__'))
    shutil.copy(os.path.join(REPO, 'setup.cfg'), dst)


def apply_edits(root, edits):
    """edits: list of (relpath, old, new[, count]).  Each `old` must occur
    exactly `count` (default 1) times."""
    for ed in edits:
        rel, old, new = ed[0], ed[1], ed[2]
        cnt = ed[3] if len(ed) > 3 else 1
        path = os.path.join(root, rel)
        with open(path) as f:
            s = f.read()
        if s.count(old) != cnt:
            return 'edit does not apply (%d occurrences of %r in %s)' % (
                s.count(old), old[:50], rel)
        s = s.replace(old, new)
        try:
            if path.endswith('.py'):
                compile(s, path, 'exec')
        except SyntaxError as e:
            return 'variant does not compile: %s' % e
        with open(path, 'w') as f:
            f.write(s)
    return None


def _run_variant(v):
    from .__main__ import run_check
    base = os.path.expanduser('~/.cache')
    os.makedirs(base, exist_ok=True)
    d = tempfile.mkdtemp(prefix='verif-selftest-', dir=base)
    out = {'id': v['id'], 'expect': v['expect'], 'results': {}, 'error': None}
    try:
        make_copy(d)
        if v.get('auto'):
            from . import transforms
            try:
                dict(transforms.AUTO)[v['auto']](d)
                err = None
            except Exception as e:   # the transformation itself failed
                err = 'transformation failed: %s: %s' % (type(e).__name__,
                                                         e)
        else:
            err = apply_edits(d, v['edits'])
        if err:
            out['error'] = err
            return out
        for prop in v['props']:
            if not os.path.exists(os.path.join(os.path.dirname(__file__),
                                               'props', prop.lower() + '.py')):
                continue
            buf = io.StringIO()
            with contextlib.redirect_stdout(buf), \
                    contextlib.redirect_stderr(buf):
                os.environ['PVERIF_NO_EVIDENCE'] = '1'
                rc, ctx = run_check(prop, 'quick', 0, d)
            from .core import load_known, matches_known
            known = [e for e in load_known() if e.get('status') == 'known']
            rules = sorted({f.rule for f in ctx.findings
                            if not any(matches_known(f, e) for e in known)}
                           ) if ctx else []
            out['results'][prop] = {'rc': rc, 'rules': rules,
                                    'text': buf.getvalue()[-1500:]}
    finally:
        shutil.rmtree(d, ignore_errors=True)
    return out


def judge(v, out):
    if out['error']:
        return False, out['error']
    if v['expect'] == 'fire':
        prop = v['props'][0]
        if prop not in out['results']:
            return True, 'skipped (check not implemented yet)'
        r = out['results'][prop]
        if r['rc'] != 1:
            return False, 'expected VIOLATION from %s, got rc=%d' % (
                prop, r['rc'])
        want = v.get('rule')
        if want and not any(x.startswith(want) for x in r['rules']):
            return False, 'fired %s, expected rule %s' % (r['rules'], want)
        return True, 'fired %s' % r['rules']
    bad = [(p, r['rc'], r['rules']) for p, r in out['results'].items()
           if r['rc'] != 0]
    if bad:
        return False, 'expected silence, got %s' % bad
    return True, 'silent'


def run(jobs=16, only=None, kind=None):
    from .mutants import VARIANTS
    from .transforms import AUTO
    allprops = ['C%02d' % i for i in range(1, 21)]
    vs = VARIANTS + [{'id': name, 'props': allprops, 'expect': 'silent',
                      'edits': [], 'auto': name} for name, _f in AUTO]
    if only:
        vs = [v for v in vs if only in v['id'] or only in v['props']]
    if kind:
        vs = [v for v in vs if v['expect'] == kind]
    t0 = time.time()
    fails = 0
    with ProcessPoolExecutor(max_workers=jobs) as ex:
        for v, out in zip(vs, ex.map(_run_variant, vs)):
            ok, why = judge(v, out)
            print('%s %-8s %-40s %s' % ('ok  ' if ok else 'FAIL',
                                        v['expect'], v['id'], why))
            if not ok:
                fails += 1
                for p, r in out['results'].items():
                    tail = r['text'].strip().splitlines()[-6:]
                    for line in tail:
                        print('        | ' + line[:200])
    print('selftest: %d variants, %d failed, %.1fs' % (len(vs), fails,
                                                       time.time() - t0))
    return 1 if fails else 0

#!/venv/bin/python
"""Confirm behaviour-preserving refactorings and run every check on them.

usage: neutral_eval.py <dir with patch.diff, check.py, meta.json> [...]
Each patch is applied to a scratch worktree of /repo; the pinned suite and
check.py must pass; then all 20 quick checks run with --root <worktree> and
every one of them must exit 0.  Prints one JSON line per directory.
"""
import json
import os
import shutil
import subprocess
import sys
import tempfile
from concurrent.futures import ThreadPoolExecutor

PY = '/venv/bin/python'
DESELECT = ('oslo_policy/tests/test_cache_handler.py::CacheHandlerTest::'
            'test_reloading_cache_with_permission_denied')


def sh(cmd, cwd=None, env=None, timeout=900):
    p = subprocess.run(cmd, cwd=cwd, capture_output=True, text=True, env=env,
                       timeout=timeout)
    return p.returncode, p.stdout + p.stderr


def evaluate(d):
    d = os.path.abspath(d)
    out = {'dir': d, 'ok': False}
    wt = tempfile.mkdtemp(prefix='nv-', dir='/tmp')
    os.rmdir(wt)
    sh(['git', '-C', '/repo', 'worktree', 'add', '-q', '--detach', wt,
        'HEAD'])
    try:
        rc, o = sh(['git', 'apply', os.path.join(d, 'patch.diff')], cwd=wt)
        if rc:
            rc, o = sh(['git', 'apply', '--3way',
                        os.path.join(d, 'patch.diff')], cwd=wt)
            sh(['git', 'reset', '-q'], cwd=wt)
        if rc:
            out['error'] = 'patch does not apply'
            return out
        env = dict(os.environ, PYTHONDONTWRITEBYTECODE='1', PYTHONPATH=wt)
        rc, o = sh([PY, '-m', 'pytest', '-q', '-p', 'no:cacheprovider',
                    '--timeout=900', '-q', '--deselect', DESELECT], cwd=wt,
                   env=env)
        out['tests_pass'] = rc == 0
        chk = os.path.join(d, 'check.py')
        if os.path.exists(chk):
            rc, o = sh([PY, chk], cwd=wt, env=env, timeout=600)
            out['check_py_rc'] = rc
        alarms, errors = {}, {}
        for i in range(1, 21):
            pid = 'C%02d' % i
            rc, o = sh([PY, '-m', 'pverif', 'check', pid, '--root', wt],
                       cwd='/verif', env=dict(env, PVERIF_NO_EVIDENCE='1'))
            if rc == 1:
                alarms[pid] = [ln[:300] for ln in o.splitlines()
                               if ln.startswith(('oslo_policy/',
                                                 'setup.cfg'))][:4]
            elif rc == 2:
                errors[pid] = [ln[:300] for ln in o.splitlines()
                               if 'ANALYSIS-ERROR' in ln][-1:]
        out['alarms'] = alarms
        out['analysis_errors'] = errors
        out['ok'] = out['tests_pass'] and out.get('check_py_rc', 0) == 0
        try:
            out['meta'] = json.load(open(os.path.join(d, 'meta.json')))
        except Exception:
            out['meta'] = None
    finally:
        sh(['git', '-C', '/repo', 'worktree', 'remove', '--force', wt])
        shutil.rmtree(wt, ignore_errors=True)
    return out


def main():
    with ThreadPoolExecutor(max_workers=6) as ex:
        for r in ex.map(evaluate, sys.argv[1:]):
            print(json.dumps(r))
            print('## %s confirmed=%s alarms=%s errors=%s' % (
                r['dir'], r['ok'], r.get('alarms'),
                r.get('analysis_errors')), file=sys.stderr)


if __name__ == '__main__':
    main()

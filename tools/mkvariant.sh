#!/bin/sh
# usage: mkvariant.sh <seeded|neutral>/<name>  -> prints a scratch dir with the
# patched package (remove it when done)
set -e
d=/tmp/w/$(basename $1)
rm -rf $d; mkdir -p $d
cp -r /repo/oslo_policy $d/; cp /repo/setup.cfg $d/
rm -rf $d/oslo_policy/tests/*; find $d -name __pycache__ -prune -exec rm -rf {} +
(cd $d && git apply --exclude='oslo_policy/tests/*' --exclude='releasenotes/*' --exclude='doc/*' /verif/$1/patch.diff)
echo $d

#!/venv/bin/python
"""Run checks against the two patch corpora, on scratch copies of /repo's
working tree (the package directory and setup.cfg; /repo is never touched):

  /verif/seeded/<id>/patch.diff   breaking change: the check of the property it
                                  breaks must report a VIOLATION (exit 1)
  /verif/neutral/<id>/patch.diff  behaviour-preserving refactoring: all checks
                                  must exit 0

usage: corpus.py [--kind seeded|neutral|all] [--props C05,C14] [--only SUBSTR]
                 [--target-only] [-v]
--target-only runs, for seeded patches, only the check of the broken property.
Exit 0 if every expectation is met.
"""
import argparse
import json
import os
import shutil
import subprocess
import sys
import tempfile
from concurrent.futures import ThreadPoolExecutor

PY = '/venv/bin/python'
VERIF = '/verif'
REPO = '/repo'
# seeded changes the target check does not decide (see DESIGN.md section 9)
EXPECTED_MISS = {
    'C03-r2-3': 'outside the quantifier (dict default rule)',
    'C09-r5-1': 'breaks reload behaviour (C10 fires), not C09',
    'C14-r5-2': 'accept set computed by the metaclass at import time '
                '(C01/C02/C15 decline with exit 2)',
    'C09-r6-2': 'breaks reload behaviour without a main file (C10.RESET, '
                'C12 and C20 fire), not the layering order C09 states',
    'C03-r9-2': 'deny-side only (a blank constructor argument no longer '
                'falls back on the option): the statement bounds when an '
                'unknown name may be allowed, and `is None` is one of the '
                'accepted spellings of "argument given"',
    'C12-r9-2': 'needs a read fault (EACCES while re-reading the file), '
                'which the operation alphabets of C10 / C12 do not have; a '
                'rule that forbids remembering the time of a failed read '
                'fires on the unchanged library too (a non-EACCES OSError '
                'there) and was withdrawn as demanding more than the '
                'property states',
    'C09-r10-2': 'breaks reload behaviour without a main file (a flag '
                 'that the rebuild branch never raises: C10.DEFAULTS, '
                 'C10.REAPPLY, C12.RELOAD, C20.FLAGS and C20.LOAD-STEP '
                 'fire), not the layering order C09 states',
    'C15-r11-2': 'RuleDefault.__eq__ also compares scope types: the '
                 'statement says what equality relies on (equal printed '
                 'forms decide alike), not that nothing else may enter it; '
                 'a stricter equality reports fewer redundant rules and '
                 'changes no decision',
    'C03-r11-1': 'set_rules(overwrite=True) binds an empty store and fills '
                 'it afterwards: identical sequentially, wrong only for a '
                 'decision taken meanwhile - C03 quantifies over inputs and '
                 'configurations; for C20 the extra fill falls into the '
                 'groups of unlocked writes already listed (F9.1 / F9.2)',
    'C20-r11-1': 'the deprecated-rule handler reads the operator\'s override '
                 'from the live store instead of the file-rule record (equal '
                 'sequentially; C11.TABLE reports the unfamiliar '
                 'expression): the stale-gate window it opens is one more '
                 'read of a store that today\'s tree already refills '
                 'without a lock (F9)',
    'C20-r8-1': 'pre-fills the not yet published store so that a concurrent '
                'caller no longer finds it empty and no longer reloads for '
                'itself: the write discipline is unchanged, what changes is '
                'an emergent self-heal no structural rule states',
}
# seeded changes on which the target check declines (exit 2) instead of
# reporting the violation
EXPECTED_INCONCLUSIVE = {
    'C13-r2-2': 'walker rewritten beyond the shapes read',
    'C15-2': 'printer shape not read',
    'C01-r7-1': 'reducer with state kept between reductions (a cached '
                'group tested by membership): the effect language has no '
                'such condition',
    'C13-r5-2': 'walkers replaced by a recursive generator (declined '
                'since round 7; reported earlier only by non-recognition)',
    'C13-r6-1': 'cycle walker replaced by a topological sort over a '
                'recursive generator (same)',
    'C15-r7-2': 'reducer helper with a loop: the effect language has no '
                'loops',
    'C02-r9-2': 'reducer patterns given as tuples of alternatives and '
                'matched by `in`: the reducer table is not read (C01, C02, '
                'C15 decline)',
    'C17-r9-2': 'rendered sections memoised in a module-level table keyed '
                'by id(default): what the table hands back is not read '
                '(reported until round 10 only by non-recognition)',
    'C04-1': 'the pattern is case-folded once by the constructor and kept '
             'in a derived attribute: what the constructor stores is not '
             'read (reported until round 10 only by non-recognition)',
    'C04-r2-2': 'a bare placeholder is recognised by the constructor and '
                'kept in a derived attribute (same)',
    'C13-r10-2': 'both walkers replaced by one reference graph filled by '
                 'a recursive generator and a path-sensitive search over '
                 'it (declined like C13-r5-2 / C13-r6-1)',
    'C13-r11-1': 'undefined-reference walker answers with the name found '
                 '(or None) instead of a verdict (declined like C13-n9-2)',
    'C13-r11-2': 'cycle walker rewritten over an explicit work list of '
                 '(check, path) frames',
    'C08-r6-2': 'the gate hands its error back instead of raising it '
                '(C07.SURFACE / C14.SURFACE report the raise outside the '
                'gate; C08 declines)',
}
# behaviour-preserving rewrites on which a check declines to decide (exit 2:
# an algorithm was replaced, not restructured).  {patch: {property: why}}
NEUTRAL_DECLINED = {
    'C02-n4-3': {'C05': 'registries merged through a ChainMap'},
    'C05-n4-1': {'C05': 'recursive walker replaced by an explicit stack'},
    'C14-n4-1': {'C05': 'recursive walker replaced by an explicit stack'},
    'C05-n4-4': {'C05': 'walker replaced by a recursive generator'},
    'C13-n4-1': {'C13': 'recursive walker replaced by a work list'},
    'C13-n4-2': {'C13': 'recursive walker replaced by a work list'},
    'C13-n4-3': {'C13': 'walker answers collected in comprehensions'},
    'C17-n4-1': {'C17': 'help formatter rewritten as a block generator'},
    'C17-n4-3': {'C17': 'formatter chosen from a table of closures'},
}
NEUTRAL_DECLINED.update({
    'C01-n6-1': {'C01': 'tokenizer dissects words with one regular '
                        'expression', 'C02': 'same', 'C15': 'same'},
    'C05-n6-1': {'C05': 'tail recursion of the walker turned into a loop'},
    'C13-n6-1': {'C13': 'not-wrappers unwrapped in place by a while loop'},
    'C14-n6-2': {'C05': 'walker split into a recursive generator and a '
                        'first-match loop'},
})
NEUTRAL_DECLINED.update({
    'C13-n7-1': {'C13': 'undefined-reference walker split into a recursive '
                        'generator and any()'},
    'C14-n7-1': {'C05': 'walker recursion moved into a nested closure'},
})
NEUTRAL_DECLINED['C16-n4-2'] = {
    'C16': 'payload encoders looked up in a module table'}
_NO_HELPER = ('the policy path lookup helper is bypassed (find_file called '
              'directly: None instead of an exception for a missing path)')
NEUTRAL_DECLINED.update({
    'C05-n9-2': {'C05': 'walker recursion moved into a nested closure '
                        'indexed by depth'},
    'C10-n9-3': {p: _NO_HELPER for p in (
        'C03', 'C06', 'C09', 'C10', 'C11', 'C12', 'C18', 'C20')},
    'C11-n9-3': {p: 'registered defaults collected in a local dict and '
                    'merged with one update()' for p in (
                        'C09', 'C11', 'C12')},
    'C13-n9-2': {'C13': 'walker answers with the offending check object or '
                        'None instead of a verdict'},
})
_CTOR = ('the pattern is worked out once by the constructor and kept in '
         'a derived attribute, which the path analysis of __call__ does '
         'not read')
NEUTRAL_DECLINED.update({
    'C01-n10-2': {'C01': 'reducer driver rewritten (del + append loop '
                         'instead of two slice assignments)'},
    'C02-n10-3': {p: 'alternatives of a list rule produced by a generator '
                     'helper' for p in ('C01', 'C15')},
    'C03-n10-3': {p: 'default rule picked by a loop over a local generator '
                     'of candidates' for p in ('C03', 'C06')},
    'C04-n10-1': {'C04': 'membership asked through a local predicate '
                         'closure handed to map()'},
    'C04-n10-2': {'C04': _CTOR},
    'C04-n10-3': {'C04': 'held role names produced by a generator helper'},
    'C13-n10-1': {'C13': 'alias chains followed in place by a while loop'},
    'C13-n10-3': {'C13': 'validator findings produced by a generator '
                         'helper'},
    'C14-n10-3': {'C05': 'tail recursion of the walker turned into a '
                         'while loop'},
    'C19-n10-2': {'C19': 'evaluation errors swallowed by a context manager '
                         'class of the program'},
    'C20-n10-3': {'C13': 'walker answers collected in comprehensions'},
})
_TWO_PASS = ('list translator in two passes (entries collected by one loop, '
             'built by a second one)')
_WRAPPED_WALK = ('the directory walker is handed a named local wrapper of '
                 'the loader instead of the loader: the walker role is not '
                 'found')
NEUTRAL_DECLINED.update({
    'C01-n11-2': {p: _TWO_PASS for p in ('C01', 'C02', 'C15')},
    'C02-n11-2': {'C02': 'rule store built empty and filled entry by entry'},
    'C06-n11-1': {p: 'argument list extended with += behind an arithmetic '
                     'arity test' for p in ('C06', 'C16')},
    'C10-n11-1': {p: 'newest modification time as a running maximum over '
                     'os.stat / os.scandir' for p in ('C10', 'C12')},
    'C10-n11-2': {p: _WRAPPED_WALK for p in (
        'C03', 'C06', 'C09', 'C10', 'C11', 'C12', 'C18', 'C20')},
    'C11-n11-1': {p: 'override questions asked through a set intersection '
                     'of names' for p in ('C11', 'C18')},
    'C13-n11-1': {'C13': 'cycle walker recursion moved into a local '
                         'closure'},
    'C15-n11-2': {'C02': 'non-rule token kinds hoisted into a module-level '
                         'frozenset and the result split into guard '
                         'clauses'},
    'C17-n11-1': {'C17': 'help formatter writes into an io.StringIO '
                         'buffer'},
    'C17-n11-3': {'C17': 'sections walked as sorted(policies.items(), '
                         'key=itemgetter(0))'},
    'C18-n11-2': {'C18': 'redundant entries selected by filter() with a '
                         'local predicate closure'},
    'C19-n11-1': {'C19': 'evaluation and reporting moved into a class of '
                         'the checker module'},
})
# refactorings that preserve the property they were written for and break
# another one: the report of that other check is right
NEUTRAL_BREAKS_OTHER = {
    'C11-n9-3': {'C20': 'the batched merge of registered defaults is the '
                        'change seeded as C20-r8-2: harmless for C11 '
                        '(sequential), a wider lost-update window for C20'},
}
# known false alarms (exit 1) that are documented and not repaired: none
NEUTRAL_KNOWN_ALARM = {}


def sh(cmd, cwd=None, env=None):
    p = subprocess.run(cmd, cwd=cwd, capture_output=True, text=True, env=env)
    return p.returncode, p.stdout + p.stderr


def prepare(kind, name):
    d = tempfile.mkdtemp(prefix='cp-', dir='/tmp')
    shutil.copytree(os.path.join(REPO, 'oslo_policy'),
                    os.path.join(d, 'oslo_policy'),
                    ignore=shutil.ignore_patterns('__pycache__', 'tests'))
    os.makedirs(os.path.join(d, 'oslo_policy', 'tests'))
    for f in ('setup.cfg',):
        shutil.copy(os.path.join(REPO, f), d)
    patch = os.path.join(VERIF, kind, name, 'patch.diff')
    rc, o = sh(['git', 'apply', '--exclude=oslo_policy/tests/*',
                '--exclude=releasenotes/*', '--exclude=doc/*', patch], cwd=d)
    if rc:
        shutil.rmtree(d, ignore_errors=True)
        return None, o
    return d, ''


def run_one(args):
    kind, name, props = args
    d, err = prepare(kind, name)
    if d is None:
        return kind, name, None, err
    res = {}
    try:
        env = dict(os.environ, PVERIF_NO_EVIDENCE='1',
                   PYTHONDONTWRITEBYTECODE='1')
        for p in props:
            rc, o = sh([PY, '-m', 'pverif', 'check', p, '--root', d],
                       cwd=VERIF, env=env)
            lines = [ln[:260] for ln in o.splitlines() if ln.startswith(
                ('oslo_policy/', 'setup.cfg', 'ANALYSIS-ERROR'))]
            res[p] = (rc, lines[:6])
    finally:
        shutil.rmtree(d, ignore_errors=True)
    return kind, name, res, ''


def main():
    ap = argparse.ArgumentParser()
    ap.add_argument('--kind', default='all')
    ap.add_argument('--props', default='')
    ap.add_argument('--only', default='')
    ap.add_argument('--target-only', action='store_true')
    ap.add_argument('-v', action='store_true')
    ap.add_argument('-j', type=int, default=16)
    a = ap.parse_args()
    allp = ['C%02d' % i for i in range(1, 21)]
    props = [p.strip().upper() for p in a.props.split(',') if p.strip()] \
        or allp
    jobs = []
    for kind in ('seeded', 'neutral'):
        if a.kind not in ('all', kind):
            continue
        base = os.path.join(VERIF, kind)
        for name in sorted(os.listdir(base)):
            if not os.path.exists(os.path.join(base, name, 'patch.diff')):
                continue
            if a.only and not any(s in name for s in a.only.split(',')):
                continue
            ps = props
            if kind == 'seeded':
                meta = json.load(open(os.path.join(base, name, 'meta.json')))
                tgt = meta['breaks_property']
                if a.target_only or a.props:
                    if tgt not in props:
                        continue
                    ps = [tgt]
            # one job per (patch, property) keeps the 16 cores busy
            for p in ps:
                jobs.append((kind, name, [p]))
    bad = 0
    agg = {}
    with ThreadPoolExecutor(max_workers=a.j) as ex:
        for kind, name, res, err in ex.map(run_one, jobs):
            if res is None:
                print('PATCH-DOES-NOT-APPLY %s/%s %s' % (kind, name, err[:200]))
                bad += 1
                continue
            agg.setdefault((kind, name), {}).update(res)
    nseed = nneut = 0
    for (kind, name), res in sorted(agg.items()):
        if kind == 'neutral':
            nneut += 1
            for p, (rc, lines) in sorted(res.items()):
                if rc == 2 and p in NEUTRAL_DECLINED.get(name, {}):
                    print('declined neutral/%s %s (%s)' % (
                        name, p, NEUTRAL_DECLINED[name][p]))
                    continue
                if rc == 1 and p in NEUTRAL_BREAKS_OTHER.get(name, {}):
                    print('breaks-another-property neutral/%s %s (%s)' % (
                        name, p, NEUTRAL_BREAKS_OTHER[name][p]))
                    continue
                if rc == 1 and p in NEUTRAL_KNOWN_ALARM.get(name, {}):
                    print('known-false-alarm neutral/%s %s (%s)' % (
                        name, p, NEUTRAL_KNOWN_ALARM[name][p]))
                    continue
                if rc != 0:
                    bad += 1
                    print('FALSE-ALARM neutral/%s %s rc=%d' % (name, p, rc))
                    for ln in lines:
                        print('      ' + ln)
                elif a.v:
                    print('ok neutral/%s %s' % (name, p))
        else:
            nseed += 1
            meta = json.load(open(os.path.join(VERIF, kind, name,
                                               'meta.json')))
            tgt = meta['breaks_property']
            for pp, (rc, lines) in sorted(res.items()):
                if rc == 2 and any('internal' in ln for ln in lines):
                    bad += 1
                    print('INTERNAL-ERROR seeded/%s %s' % (name, pp))
                    for ln in lines:
                        print('      ' + ln)
            if tgt in res:
                rc, lines = res[tgt]
                if rc == 1:
                    if a.v:
                        print('ok seeded/%s %s fired' % (name, tgt))
                elif name in EXPECTED_MISS and rc == 0:
                    print('expected-miss seeded/%s (%s)' % (
                        name, EXPECTED_MISS[name]))
                elif name in EXPECTED_INCONCLUSIVE and rc == 2:
                    print('expected-inconclusive seeded/%s (%s)' % (
                        name, EXPECTED_INCONCLUSIVE[name]))
                else:
                    bad += 1
                    print('MISSED seeded/%s %s rc=%d' % (name, tgt, rc))
                    for ln in lines:
                        print('      ' + ln)
    print('%d seeded, %d neutral patches; %d expectation(s) not met' % (
        nseed, nneut, bad))
    return 1 if bad else 0


if __name__ == '__main__':
    sys.exit(main())

#!/venv/bin/python
"""Confirm a seeded change and run the checks against it.

usage: seed_eval.py <dir with patch.diff, demo.py, meta.json> [...]

For each seed: a scratch git worktree of /repo is created under /tmp, the
patch is applied, the pinned suite is run (must pass), the demonstration is
run with the patch (must fail) and without it (must pass), and all twenty
quick checks are run against the patched worktree (--root).  The worktree is
removed afterwards.  Prints one JSON line per seed.
"""
import json
import os
import shutil
import subprocess
import sys
import tempfile

PY = '/venv/bin/python'
DESELECT = ('oslo_policy/tests/test_cache_handler.py::CacheHandlerTest::'
            'test_reloading_cache_with_permission_denied')


def sh(cmd, cwd=None, timeout=900, env=None):
    p = subprocess.run(cmd, cwd=cwd, shell=isinstance(cmd, str),
                       capture_output=True, text=True, timeout=timeout,
                       env=env)
    return p.returncode, (p.stdout + p.stderr)


def evaluate(seed, run_tests=True):
    seed = os.path.abspath(seed)
    patch = os.path.join(seed, 'patch.diff')
    demo = os.path.join(seed, 'demo.py')
    out = {'seed': seed, 'ok': False}
    wt = tempfile.mkdtemp(prefix='sv-', dir='/tmp')
    os.rmdir(wt)
    rc, o = sh(['git', '-C', '/repo', 'worktree', 'add', '-q', '--detach',
                wt, 'HEAD'])
    if rc:
        out['error'] = 'worktree: ' + o[-300:]
        return out
    try:
        rc, o = sh(['git', 'apply', patch], cwd=wt)
        if rc:
            rc, o = sh(['git', 'apply', '--3way', patch], cwd=wt)
            sh(['git', 'reset', '-q'], cwd=wt)
        if rc:
            out['error'] = 'patch does not apply: ' + o[-300:]
            return out
        env = dict(os.environ, PYTHONDONTWRITEBYTECODE='1', PYTHONPATH=wt)
        if run_tests:
            rc, o = sh([PY, '-m', 'pytest', '-q', '-p', 'no:cacheprovider',
                        '--timeout=900', '-q', '--deselect', DESELECT],
                       cwd=wt, env=env)
            out['tests_pass_with_patch'] = rc == 0
            out['tests_tail'] = o.strip().splitlines()[-1:] if o else []
        rc, o = sh([PY, demo], cwd=wt, env=env, timeout=300)
        out['demo_rc_with_patch'] = rc
        out['demo_out_with_patch'] = o.strip()[-300:]
        # checks against the patched tree
        fired = {}
        errors = {}
        for i in range(1, 21):
            pid = 'C%02d' % i
            e2 = dict(env, PVERIF_NO_EVIDENCE='1')
            rc, o = sh([PY, '-m', 'pverif', 'check', pid, '--root', wt],
                       cwd='/verif', env=e2)
            if rc == 1:
                rules = sorted({ln.split('  ')[2] for ln in o.splitlines()
                                if ln.startswith('oslo_policy/')
                                or ln.startswith('setup.cfg')
                                and len(ln.split('  ')) > 2})
                fired[pid] = rules
            elif rc == 2:
                errors[pid] = [ln for ln in o.splitlines()
                               if 'ANALYSIS-ERROR' in ln][-1:]
        out['fired'] = fired
        out['analysis_errors'] = errors
        sh(['git', 'checkout', '--', '.'], cwd=wt)
        rc, o = sh([PY, demo], cwd=wt, env=env, timeout=300)
        out['demo_rc_without_patch'] = rc
        out['ok'] = (out.get('tests_pass_with_patch', True)
                     and out['demo_rc_with_patch'] != 0
                     and out['demo_rc_without_patch'] == 0)
        try:
            out['meta'] = json.load(open(os.path.join(seed, 'meta.json')))
        except Exception:
            out['meta'] = None
    finally:
        sh(['git', '-C', '/repo', 'worktree', 'remove', '--force', wt])
        shutil.rmtree(wt, ignore_errors=True)
    return out


def main():
    from concurrent.futures import ThreadPoolExecutor
    seeds = sys.argv[1:]
    with ThreadPoolExecutor(max_workers=6) as ex:
        for r in ex.map(evaluate, seeds):
            prop = (r.get('meta') or {}).get('property')
            print(json.dumps(r))
            caught = prop in (r.get('fired') or {})
            print('## %s  confirmed=%s  target=%s  caught=%s  fired=%s '
                  'errors=%s' % (r['seed'], r['ok'], prop, caught,
                                 r.get('fired'), r.get('analysis_errors')),
                  file=sys.stderr)


if __name__ == '__main__':
    main()

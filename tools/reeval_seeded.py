#!/venv/bin/python
"""Re-run the 20 quick checks against every kept seeded change
(/verif/seeded/*/patch.diff) and refresh meta.json; print a markdown table.

The patch is applied to a scratch git worktree of /repo (removed afterwards);
/repo itself is not touched.
"""
import json
import os
import shutil
import subprocess
import sys
import tempfile
from concurrent.futures import ThreadPoolExecutor

PY = '/venv/bin/python'
SEEDED = '/verif/seeded'


def sh(cmd, cwd=None, env=None):
    p = subprocess.run(cmd, cwd=cwd, capture_output=True, text=True, env=env)
    return p.returncode, p.stdout + p.stderr


def one(name):
    d = os.path.join(SEEDED, name)
    meta = json.load(open(os.path.join(d, 'meta.json')))
    wt = tempfile.mkdtemp(prefix='sr-', dir='/tmp')
    os.rmdir(wt)
    sh(['git', '-C', '/repo', 'worktree', 'add', '-q', '--detach', wt,
        'HEAD'])
    try:
        rc, o = sh(['git', 'apply', os.path.join(d, 'patch.diff')], cwd=wt)
        if rc:
            rc, o = sh(['git', 'apply', '--3way', os.path.join(d, 'patch.diff')], cwd=wt)
            sh(['git', 'reset', '-q'], cwd=wt)
        if rc:
            meta['patch_applies_to_head'] = False
            return name, meta
        meta['patch_applies_to_head'] = True
        fired, errors = {}, {}
        env = dict(os.environ, PVERIF_NO_EVIDENCE='1')
        for i in range(1, 21):
            pid = 'C%02d' % i
            rc, o = sh([PY, '-m', 'pverif', 'check', pid, '--root', wt],
                       cwd='/verif', env=env)
            if rc == 1:
                rules = sorted({ln.split('  ')[2] for ln in o.splitlines()
                                if (ln.startswith('oslo_policy/')
                                    or ln.startswith('setup.cfg'))
                                and len(ln.split('  ')) > 2})
                fired[pid] = rules
            elif rc == 2:
                errors[pid] = [ln for ln in o.splitlines()
                               if 'ANALYSIS-ERROR' in ln][-1:]
        meta['checks_fired'] = fired
        meta['analysis_errors'] = errors
        meta['caught_by_target_check'] = meta['breaks_property'] in fired
    finally:
        sh(['git', '-C', '/repo', 'worktree', 'remove', '--force', wt])
        shutil.rmtree(wt, ignore_errors=True)
    json.dump(meta, open(os.path.join(d, 'meta.json'), 'w'), indent=1)
    return name, meta


def main():
    names = sorted(n for n in os.listdir(SEEDED)
                   if os.path.exists(os.path.join(SEEDED, n, 'patch.diff')))
    rows = []
    with ThreadPoolExecutor(max_workers=8) as ex:
        for name, meta in ex.map(one, names):
            rows.append((name, meta))
    caught = sum(1 for _n, m in rows if m.get('caught_by_target_check'))
    print('| seeded change | what it does | needs to manifest | target '
          'check | other checks that fire |')
    print('|---|---|---|---|---|')
    for name, m in rows:
        prop = m['breaks_property']
        f = m.get('checks_fired') or {}
        tgt = ', '.join(f.get(prop, [])) or (
            'inconclusive (exit 2)' if prop in (m.get('analysis_errors')
                                                or {}) else '**missed**')
        others = '; '.join('%s: %s' % (k, ', '.join(v))
                           for k, v in sorted(f.items()) if k != prop)
        print('| `%s` | %s | %s | %s | %s |' % (
            name, (m.get('summary') or '')[:110].replace('|', '/'),
            (m.get('needs_to_manifest') or '')[:110].replace('|', '/'),
            tgt, others or '-'))
    print('\n%d of %d seeded changes are reported by the check of the '
          'property they break.' % (caught, len(rows)), file=sys.stderr)


if __name__ == '__main__':
    main()

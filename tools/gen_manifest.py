#!/venv/bin/python
"""Regenerate /verif/MANIFEST.json from the per-property table below.

A property is claimed only when pverif/props/<id>.py exists; otherwise it is
listed under not_applicable with the reason 'check not implemented yet'.
"""
import json
import os

HERE = os.path.dirname(os.path.dirname(os.path.abspath(__file__)))

T = {
 'C01': dict(
  technique='grammar-table extraction + bounded table/grammar equivalence; structural AST rules',
  text='Static analysis. (S) the @reducer table and each reducer\'s effect term are extracted from the AST and compared as a shift-reduce table model with a recursive-descent reference of the documented grammar on every sentence up to Ns tokens and every token string up to Na tokens (quick 11/5, thorough 15/8): acceptance and decision equality. (N) structural rules on the generic reduce/shift driver, the tokenizer (keyword case-normalisation, paren peeling, whitespace split), the five evaluators (ALL/ANY/NOT folds, constants), the list-of-lists translator and the constant inputs.',
  note='Decided up to the token bounds, not by induction; driver/tokenizer are checked structurally, not executed; Unicode whitespace subtleties of re vs str.isspace are not decided.',
  ref='3 C01'),
 'C02': dict(
  technique='bounded table-model rejection agreement; abstract evaluation of parse_rule paths over value kinds; handler analysis',
  text='Static analysis. (S) every rejected token string over the seven token kinds up to the bound ends on the failure path of the extracted table model + acceptance guards and only checks can be accepted values; (S) abstract evaluation of the extracted paths of parse_rule over the kinds of JSON/YAML values shows TrueCheck is constructible only for \'\', [], () and \'@\'; (N) mappings are never iterated as rules, parse-error handlers fail closed, the failure exception is caught where the result is read, loaders parse every value.',
  note='Known finding F2b: parse_rule(None) is always-allow (pinned by a test). Values that raise inside the loader count as rejected at load.',
  ref='3 C02'),
 'C03': dict(
  technique='decision-table extraction of Rules.__missing__ over default-rule kinds; raise/catch and provenance rules',
  text='Static analysis. (S) the branch structure of Rules.__missing__ is extracted and evaluated for every kind of default rule (None, \'\', defined name, undefined name, check object): outcome must equal the documented fallback table. (N) lookup failures are caught and yield False before the do_raise gate; Rules defines no lookup override; every Rules store built by the enforcer carries the default rule, which comes from the constructor argument or the policy_default_rule option (default \'default\').',
  note='Default rules of other types (e.g. int) are outside the quantifier; oslo.config option plumbing is trusted.',
  ref='3 C03'),
 'C04': dict(
  technique='path extraction of the role check; normaliser-symmetry and membership-polarity rules',
  text='Static analysis (necessary conditions). Every path of the class registered for kind \'role\': X is match % target with KeyError -> False; the only non-constant result is a positive membership of the case-normalised X among the same-normalised elements of creds[\'roles\'], guarded by presence of that key; every other result is False.',
  note='That str.lower is a case-insensitive equality for every Unicode string is not decided (the quantifier restricts to one-to-one case mappings).',
  ref='3 C04'),
 'C05': dict(
  technique='path extraction of the generic check and its credential walker; registry and split-count rules',
  text='Static analysis (necessary conditions). Registry: kind None -> the generic class, consulted only after extension and registered kinds; kind:match split once. Generic check: literal_eval(kind) first and compared by match == str(value); the path walk only from the literal-failure path, rooted at the credentials, consuming one segment per step, ANY-fold over list values, base case match == str(value); missing key/attribute -> False; quoted-string tokens are recognised by first and last character.',
  note='Behaviour of ast.literal_eval itself is trusted; crash cases belong to C14.',
  ref='3 C05'),
 'C06': dict(
  technique='argument-role agreement across sibling __call__ implementations; adapter decision table',
  text='Static analysis (necessary conditions). The alias class looks self.match up in enforcer.rules at call time; every _check call in a combinator/alias passes target, creds, enforcer, current_rule unchanged in those roles; the adapter builds [target, creds, enforcer] and appends current_rule exactly when __call__ takes 5+ parameters; enforce passes the enforced name (None for check objects); an undefined reference is caught and denies.',
  note='Inlining equivalence as a metamorphic relation is not decided; custom check classes beyond the calling convention are out of reach.',
  ref='3 C06'),
 'C07': dict(
  technique='exit-path enumeration of enforce/authorize with the scope gate inlined',
  text='Static analysis. (S) all exits of Enforcer.enforce are enumerated with _enforce_scope inlined: with do_raise on, no path returns a falsy constant or the raw falsy result; with it off, no path raises a policy exception. (N) the gate raises exc(*args, **kwargs) or PolicyNotAuthorized(rule, target, creds); the debug dump cannot raise or mutate; authorize checks registration before enforce, forwards every parameter and has the same signature defaults.',
  note='Exceptions raised by custom check classes or by load_rules (configuration errors) are outside this rule.',
  ref='3 C07'),
 'C08': dict(
  technique='decision-table extraction of the scope gate; dominance / provenance rules in enforce',
  text='Static analysis. (S) the complete branch structure of _enforce_scope is extracted and compared row by row (3 scopes x membership x enforce_scope x do_raise) with the documented table. (N) in enforce the gate takes scope types from the registered default, receives do_raise, precedes the check and a falsy result returns False; creds[\'system\'] mirrors system_scope; RequestContext is mapped key-for-key; enforce_scope is a boolean option defaulting to True.',
  note='oslo.context\'s to_policy_values is trusted.',
  ref='3 C08'),
 'C09': dict(
  technique='decision-table extraction of pick_default_policy_file; event-order typestate over load_rules; walker rules',
  text='Static analysis. (S) pick_default_policy_file\'s branch structure is compared with the documented 32-row table; (S) on every path of load_rules the main file is applied before directories, directories before default merging, and defaults only for absent names. (N) directories in configured order, walker lists top level only, sorted, dot-files filtered; directory files loaded with overwrite False; missing file/dirs skipped; option defaults; JSON-then-YAML parsing.',
  note='JSON/YAML spelling equivalence (PyYAML) and oslo.config find_file/location semantics are trusted, not decided.',
  ref='3 C09'),
 'C10': dict(
  technique='producer/consumer type agreement; reset-before-reapply typestate over load_rules; cache guard rules',
  text='Static analysis (necessary conditions only). Type agreement between read_cached_file\'s results and the decoders; load precedes every rule-store read in enforce; the reload guard is true for an empty/older cache entry and force_reload drops the entry; directory freshness uses the newest mtime of the directory and its entries; every path to a directory re-application in overwrite mode passes a store reset; defaults are merged regardless of change flags.',
  note='History-level equivalence with a fresh enforcer (mtime granularity, arbitrary edit orders) is NOT decided.',
  ref='3 C10'),
 'C11': dict(
  technique='decision-table extraction of the deprecated-rule handler over 7 atoms',
  text='Static analysis. (S) the branch structure of _handle_deprecated_rule is extracted (conditions mapped to the atoms renamed, old_in_file, same_obj, alias, new_in_file, enforce_new, same_str) and compared on every feasible assignment with the documented override table; any other influential condition is a violation. (N) the handler is only called for absent names with a deprecated rule and its result is what is stored; option enforce_new_defaults defaults to True.',
  note='Warnings are ignored; file-rule recording is C10.PAIR.',
  ref='3 C11'),
 'C12': dict(
  technique='ownership / effect analysis over region(load_rules, enforce); who-may-call rule for check mutators',
  text='Static analysis. (S) registered defaults are stored as deepcopy of the parameter; no store or mutator call in region(load_rules) U region(enforce) has an access path rooted at a registered default or anything reachable from it; check mutators are called only inside the parser on fresh objects; (N) the merged deprecated check is a fresh OrCheck never stored back; no module-level state is written except the memoised extension table.',
  note='Idempotence as a history property follows only together with C09-C11; it is not decided here.',
  ref='3 C12'),
 'C13': dict(
  technique='traversal exhaustiveness over the check class hierarchy; fold/cycle-walker rules',
  text='Static analysis. (S) child-holding attributes are computed from the check classes (constructor-stored and evaluated in __call__); each validator walker must descend into every one of them. (N) walker recursion is an ANY fold; undefined test is non-membership in the rule store; the cycle walker marks before descending and copies the visited set per branch; check_rules aggregates and raises as documented; the validator fails for its four problem classes.',
  note='Termination of evaluation when nothing is reported is decided only through its structural causes. Known finding F14: the validator infers a parse failure from the printed form `!`, which `(!)` shares.',
  ref='3 C13'),
 'C14': dict(
  technique='may-raise model vs enclosing-handler coverage over the evaluation region',
  text='Static analysis. (S) for every raising operation site in the evaluation region of the built-in checks (template %, literal_eval, subscripts of JSON values and protocol mappings, rule-store lookup) the frozen may-raise set must be covered by an enclosing handler in the region whose paths all end in a falsy result.',
  note='Custom checks are out of reach; MemoryError/RecursionError are resource-class and reported separately; the may-raise table is part of the trusted base.',
  ref='3 C14'),
 'C15': dict(
  technique='writer/reader table agreement; bounded print-parse round trip on the extracted models',
  text='Static analysis. (S) printer formats extracted from every __str__ are checked against the reader (keywords, whitespace, parens, separator, constants) and, over all trees the table can produce up to Nt nodes, print -> tokenize -> reduce (all on extracted data) gives the same tree. (N) Rules.__str__ / load agree on \'\' for TrueCheck; RuleDefault equality uses names and printed checks; no parser function memoises its (mutable) result unless every caller deep-copies it (C15.FRESH).',
  note='Leaves with embedded whitespace are outside the quantifier.',
  ref='3 C15'),
 'C16': dict(
  technique='expression-shape and sibling-agreement rules on the http/https check classes',
  text='Static analysis (necessary conditions). Both remote check classes decide by reply text stripped only of double quotes == \'True\'; no except body returns; URL is scheme + match % target passed first to requests.post; payload carries rule/target/credentials in the configured encoding; the caller\'s target is never written (blanking on a deepcopy); entry points map http/https to these classes.',
  note='requests\' behaviour (decoding of the reply body included) is trusted. Further rules from the hardening rounds (DESIGN 9): no handler around a nested evaluation catches what a failing remote check raises; __call__ as getfullargspec sees it keeps its fifth named parameter.',
  ref='3 C16'),
 'C17': dict(
  technique='string-shape / taint analysis of the sample generator',
  text='Static analysis. (S) the help-text sanitizer is shown to return only #-prefixed lines; (S) for every path of the YAML formatter under the sample entry point\'s constants, every line of the abstract output starts with # (or is empty), multi-line sources occur only through the sanitizer, single-line sources only on #-started lines; (N) the rule line shape and the JSON member shape.',
  note='textwrap.wrap honouring its indents and single-line sources being free of line breaks are assumed. Since F16 the JSON member value must be a JSON scalar (a TAB in a check string); a namespace\'s rule defaults are walked once (C17.ONCE); generated files are opened truncating. Per-character escaping helpers are read exactly (pverif/respell.py: which characters stay raw, which escape for which range); a re-spelled JSON member may only use \\uXXXX.',
  ref='3 C17'),
 'C18': dict(
  technique='quoted-hole provenance, pop-guard dominance and branch rules on the rewriting tools',
  text='Static analysis (necessary conditions). Values written between literal quotes of a YAML/JSON scalar must be serialised or come from registered check strings; dict.pop without default must be dominated by membership in the same dict; the converter keeps overrides uncommented; the generator merges file rules with absent registered rules; list-redundant prints only equal rules.',
  note='Decision preservation over all files is NOT decided. Since F15 / F18 policy names read from the operator\'s files are tainted like rule values (converter and policy generator); a value re-spelled on its way out must keep only characters a YAML scalar may hold raw and escape the rest with enough digits (DESIGN 9.13).',
  ref='3 C18'),
 'C19': dict(
  technique='polarity, argument-role and duck-type rules on the checker tool',
  text='Static analysis (necessary conditions). passed/failed are printed on the truthy/falsy branch of the evaluation; the call passes (target, credentials, enforcer stand-in, policy name) in BaseCheck.__call__ roles; the default-rule name equals the library option default; iteration is sorted and filtered by \':\'; the stand-in defines every attribute built-in checks read; an undefined requested rule denies like the library.',
  note='Agreement on all inputs is differential by nature and not decided.',
  ref='3 C19'),
 'C20': dict(
  technique='publication-discipline (write-site) analysis of the shared rule stores',
  text='Static analysis. (S) every write to the shared stores Enforcer.rules / file_rules reachable from load_rules is enumerated and tested against the two safe disciplines (single rebind of a locally built object, or a common lock around writers and readers).',
  note='Known finding F9: the stores are rebuilt in place without a lock; recorded per write site, any new write site or reader is a violation. Also: flags gating a store-writing step are not lowered by a load, every call loads first, the store class keeps no derived state, a file-cache entry is stamped with the new modification time only after its data is stored (C20.CACHE-ORDER) (DESIGN 9).',
  ref='3 C20'),
}

NA_REASON = 'check not implemented yet (see DESIGN.md section 3); will be claimed once pverif/props/%s.py exists'


def main():
    checks = []
    na = []
    for pid in sorted(T):
        if os.path.exists(os.path.join(HERE, 'pverif', 'props',
                                       pid.lower() + '.py')):
            t = T[pid]
            checks.append({
                'property_id': pid,
                'quick_cmd': '/venv/bin/python -m pverif check %s --tier quick' % pid,
                'thorough_cmd': '/venv/bin/python -m pverif check %s --tier thorough' % pid,
                'evidence_file': '/verif/evidence/%s.json' % pid,
                'replay_cmd_template': '/venv/bin/python -m pverif replay {path}',
                'engine': 'pverif',
                'level_claimed': {'category': 'other', 'text': t['text'],
                                  'design_ref': 'DESIGN.md section ' + t['ref']},
                'level_note': t['note'],
                'technique': 'static analysis: ' + t['technique'],
            })
        else:
            na.append({'property_id': pid, 'reason': NA_REASON % pid.lower()})
    m = {
        'version': 1,
        'setup_cmd': '/venv/bin/python -m compileall -q /verif/pverif',
        'hooks': {
            'guard': 'OSLO_POLICY_VERIF',
            'enable': 'no hooks: every check parses /repo\'s working tree with ast; the guard is unused',
            'baseline_off_cmd': 'cd /repo && /venv/bin/python -m pytest -ra -q -p no:cacheprovider --timeout=900 --continue-on-collection-errors',
            'source_commits': [],
            'add_only': True,
        },
        'engines': [{
            'name': 'pverif', 'path': '/verif/pverif',
            'serves_properties': [c['property_id'] for c in checks],
            'kind_free_text': 'repository-specific static analyser over python ast: program model + call graph, structured path enumeration with symbolic environment (decision-table extraction), finite-domain abstract evaluation, grammar-table model, effect/ownership analysis, string-shape analysis',
        }],
        'checks': checks,
        'not_applicable': na,
        'notes': 'Technique family: static analysis only; /repo is parsed, never imported or executed by a check. Exit codes: 0 held (KNOWN-FINDING lines allowed), 1 VIOLATION, 2 ANALYSIS-ERROR. Known findings: /verif/known_findings.json. Self-test of the checkers: /venv/bin/python -m pverif selftest.',
    }
    with open(os.path.join(HERE, 'MANIFEST.json'), 'w') as f:
        json.dump(m, f, indent=1)
    print('claimed', len(checks), 'not_applicable', len(na))


if __name__ == '__main__':
    main()

#!/bin/sh
# Regenerate /verif/seeded/README.md (re-runs all 20 checks on every kept
# seeded change in scratch worktrees of /repo; refreshes the meta.json files).
set -e
cd /verif
{
cat <<'H'
# Seeded changes (kept, confirmed) and the checks that report them

Each directory holds `patch.diff` (never committed to /repo), `demo.py` (fails with the patch, passes without) and `meta.json` (what it breaks, what it needs to manifest, what was run, which checks fired). Produced by fresh sub-agents that saw only the property text and their own scratch worktree; confirmed by `tools/seed_eval.py`. Rounds: unnumbered and `r2` (early), `r5` (five named kinds of mechanism), `r6` ... `r12` (held-out measurements, see DESIGN.md sections 9.9 to 9.15). Patches are kept rebased on /repo's HEAD (`fix:` commits were made after rounds 6, 8, 9 and 10). `tools/corpus.py --kind seeded --target-only` is the fast re-run; this table is produced by `tools/reeval_seeded.py`.

H
/venv/bin/python tools/reeval_seeded.py 2>/tmp/reeval.err
echo
cat /tmp/reeval.err
} > seeded/README.md.new
mv seeded/README.md.new seeded/README.md
tail -2 seeded/README.md

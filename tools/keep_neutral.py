#!/venv/bin/python
"""Keep confirmed behaviour-preserving refactorings under /verif/neutral/
from the JSON lines of neutral_eval.py (stdin)."""
import json
import os
import shutil
import sys

for line in sys.stdin:
    line = line.strip()
    if not line.startswith('{'):
        continue
    r = json.loads(line)
    if not r.get('ok'):
        print('skip (not confirmed):', r['dir'], r.get('error'))
        continue
    meta = r.get('meta') or {}
    prop = meta.get('property') or os.path.basename(
        os.path.dirname(r['dir'])).split('-')[-1]
    n = os.path.basename(r['dir'].rstrip('/'))
    tag = os.path.basename(os.path.dirname(r['dir']))
    rnd = tag.split('-')[0].replace('out', 'n')       # out3 -> n3, out4 -> n4
    if rnd in ('n6', 'n7', 'n8', 'n9', 'n10', 'n11'):
        n = n.lstrip('n')
    dst = '/verif/neutral/%s-%s-%s' % (prop, rnd, n)
    os.makedirs(dst, exist_ok=True)
    shutil.copy(os.path.join(r['dir'], 'patch.diff'), dst)
    if os.path.exists(os.path.join(r['dir'], 'check.py')):
        shutil.copy(os.path.join(r['dir'], 'check.py'), dst)
    meta.update({'anchored_property': prop,
                 'confirmed_by': 'tools/neutral_eval.py: patch applied to a '
                 'scratch worktree of /repo; pinned suite passes; check.py '
                 'passes; all 20 quick checks run with --root <worktree>',
                 'tests_pass': r.get('tests_pass'),
                 'check_py_rc': r.get('check_py_rc'),
                 'alarms_at_first_evaluation': r.get('alarms'),
                 'analysis_errors_at_first_evaluation':
                 r.get('analysis_errors')})
    json.dump(meta, open(os.path.join(dst, 'meta.json'), 'w'), indent=1)
    print('kept', dst)

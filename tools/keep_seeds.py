#!/venv/bin/python
"""Keep confirmed seeded changes under /verif/seeded/<id>/ from the JSON
lines printed by seed_eval.py (stdin)."""
import json
import os
import shutil
import sys

for line in sys.stdin:
    line = line.strip()
    if not line.startswith('{'):
        continue
    r = json.loads(line)
    if not r.get('ok'):
        print('skip (not confirmed):', r['seed'], r.get('error'))
        continue
    meta = r.get('meta') or {}
    prop = meta.get('property') or 'C??'
    n = os.path.basename(r['seed'].rstrip('/'))
    if '/out2-' in r['seed']:
        n = 'r2-' + n
    if '/out5-' in r['seed']:
        n = 'r5-' + n
    if '/out6-' in r['seed']:
        n = 'r6-' + n.lstrip('b')
    if '/out7-' in r['seed']:
        n = 'r7-' + n.lstrip('b')
    if '/out8-' in r['seed']:
        n = 'r8-' + n.lstrip('b')
    if '/out9-' in r['seed']:
        n = 'r9-' + n.lstrip('b')
    if '/out10-' in r['seed']:
        n = 'r10-' + n.lstrip('b')
    if '/out11-' in r['seed']:
        n = 'r11-' + n.lstrip('b')
    if '/out12-' in r['seed']:
        n = 'r12-' + n.lstrip('b')
    dst = '/verif/seeded/%s-%s' % (prop, n)
    os.makedirs(dst, exist_ok=True)
    for f in ('patch.diff', 'demo.py'):
        shutil.copy(os.path.join(r['seed'], f), dst)
    meta.update({
        'breaks_property': prop,
        'confirmed_by': 'tools/seed_eval.py: patch applied to a scratch '
        'worktree of /repo; pinned suite run (minus the always-failing '
        'permission test); demo run with and without the patch (PYTHONPATH '
        '= worktree); all 20 quick checks run with --root <worktree>',
        'tests_pass_with_patch': r.get('tests_pass_with_patch'),
        'demo_rc_with_patch': r.get('demo_rc_with_patch'),
        'demo_rc_without_patch': r.get('demo_rc_without_patch'),
        'checks_fired': r.get('fired'),
        'analysis_errors': r.get('analysis_errors'),
        'caught_by_target_check': prop in (r.get('fired') or {}),
    })
    json.dump(meta, open(os.path.join(dst, 'meta.json'), 'w'), indent=1)
    print('kept', dst, 'caught=%s' % meta['caught_by_target_check'],
          r.get('fired'))
